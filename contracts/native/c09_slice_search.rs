// Native counterexample search for C09 (used by ./check only AFTER a Verus obligation of
// U-slice-arith has failed, to attach a concrete failing input; it decides nothing by itself).
// Slices every vector 0..n (n <= 6) with every range start/end in -8..=8 (end also open) and step
// in -3..=3 through the public API and compares an accepted slice with Python's slice semantics.
use rten_tensor::prelude::*;
use rten_tensor::{NdTensor, SliceItem, SliceRange};

fn py_slice(n: isize, start: isize, end: Option<isize>, step: isize) -> Vec<i32> {
    let norm = |i: isize| if i < 0 { i + n } else { i };
    let mut out = Vec::new();
    if step > 0 {
        let lo = norm(start).clamp(0, n);
        let hi = end.map(|e| norm(e).clamp(0, n)).unwrap_or(n);
        let mut i = lo;
        while i < hi { out.push(i as i32); i += step; }
    } else {
        let lo = norm(start).clamp(-1, n - 1);
        let hi = end.map(|e| norm(e).clamp(-1, n - 1)).unwrap_or(-1);
        let mut i = lo;
        while i > hi { out.push(i as i32); i += step; }
    }
    out
}

#[test]
fn search() {
    let mut found = 0;
    let mut tried = 0usize;
    for n in 0..=6isize {
        let t = NdTensor::<i32, 1>::from_data([n as usize], (0..n as i32).collect::<Vec<_>>());
        for start in -8..=8isize {
            for end in std::iter::once(None).chain((-8..=8isize).map(Some)) {
                for step in [-3isize, -2, -1, 1, 2, 3] {
                    tried += 1;
                    // SliceRange arithmetic used by ops-level slicing (Python semantics with clamping)
                    let r = SliceRange::new(start, end, step);
                    let want_len = py_slice(n, start, end, step).len();
                    if r.steps(n as usize) != want_len && found < 10 {
                        println!("FOUND kind=steps n={n} start={start} end={end:?} step={step} expected={want_len} got={}", r.steps(n as usize));
                        found += 1;
                    }
                    let c = r.clamp(n as usize);
                    if (c.steps(n as usize) != want_len || c.resolve(n as usize).is_none()) && found < 10 {
                        println!("FOUND kind=clamp n={n} start={start} end={end:?} step={step} expected_len={want_len} got_len={} resolves={}",
                                 c.steps(n as usize), c.resolve(n as usize).is_some());
                        found += 1;
                    }
                    let item = SliceItem::range(start, end, step);
                    let items = [item];
                    let Ok(view) = t.view().try_slice_dyn(items.as_slice()) else { continue };
                    let got: Vec<i32> = view.iter().copied().collect();
                    let want = py_slice(n, start, end, step);
                    if got != want && found < 10 {
                        println!("FOUND kind=slice n={n} start={start} end={end:?} step={step} expected={want:?} got={got:?}");
                        found += 1;
                    }
                }
            }
        }
    }
    println!("searched {tried} (n, start, end, step) combinations");
    assert!(found == 0);
}
