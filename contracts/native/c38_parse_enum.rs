// Bounded stand-in for the generated ONNX parsers (C38 / C05, backend `native`): the REAL
// `ModelProto::parse_buf` on
//   (1) every byte string of length 0..=2 and every 3-byte string whose first byte is a field tag
//       of ModelProto, and
//   (2) a structured family: at each of 9 nesting paths (ModelProto, .graph, .graph.initializer,
//       .graph.node, .graph.node.attribute, .graph.node.attribute.t, .graph.input,
//       .graph.sparse_initializer, .graph.initializer.external_data) one field with EVERY one-byte
//       tag (all field numbers 0..=31 x all wire types) whose length / varint value is one of 14
//       extreme values (0, 1, 2, 127, 128, 2^31, 2^32 - 1, 2^32, 2^62, 2^63 - 1, 2^63, 2^63 + 1,
//       2^64 - 2, 2^64 - 1), followed by 8 data bytes; enclosing message lengths are honest.
// Checked: decoding returns Ok or Err -- it never panics (e.g. "capacity overflow" from reserving an
// untrusted length) -- and finishes (the whole enumeration runs in well under a second; a hang or
// an allocation abort makes the run fail).
use rten_onnx::onnx::ModelProto;
use std::panic::catch_unwind;

fn varint(mut v: u64, out: &mut Vec<u8>) {
    loop {
        let b = (v & 0x7f) as u8;
        v >>= 7;
        if v == 0 { out.push(b); break; }
        out.push(b | 0x80);
    }
}

/// wrap `payload` as a LEN field `field` (honest length)
fn wrap(field: u64, payload: &[u8]) -> Vec<u8> {
    let mut out = Vec::new();
    varint(field << 3 | 2, &mut out);
    varint(payload.len() as u64, &mut out);
    out.extend_from_slice(payload);
    out
}

fn try_parse(buf: &[u8], what: &str, found: &mut usize) {
    // VERIF_TRACE=1 (set by the runner after an abort): print every case before it is parsed, so
    // that the last line names the input that killed the process (allocation failure aborts
    // cannot be caught)
    if std::env::var_os("VERIF_TRACE").is_some() {
        println!("TRY kind=parse {what} bytes={buf:02x?}");
    }
    let r = catch_unwind(|| ModelProto::parse_buf(buf).is_ok());
    if r.is_err() {
        if *found < 10 { println!("FOUND kind=parse panic {what} bytes={buf:02x?}"); }
        *found += 1;
    }
}

#[test]
fn enumerate() {
    // keep the default panic hook quiet: panics are reported through FOUND lines
    std::panic::set_hook(Box::new(|_| {}));
    let mut found = 0usize;
    let mut cases = 0usize;
    // (1) short strings
    try_parse(&[], "short", &mut found);
    cases += 1;
    for a in 0..=255u8 {
        try_parse(&[a], "short", &mut found);
        cases += 1;
        for b in 0..=255u8 {
            try_parse(&[a, b], "short", &mut found);
            cases += 1;
        }
    }
    for a in [0x08u8, 0x12, 0x1a, 0x3a, 0x42, 0x72, 0x0a, 0x0d, 0x09] {
        for b in 0..=255u8 { for c in 0..=255u8 { try_parse(&[a, b, c], "short", &mut found); cases += 1; } }
    }
    // (2) structured family
    let paths: [&[u64]; 9] = [&[], &[7], &[7, 5], &[7, 1], &[7, 1, 5], &[7, 1, 5, 5], &[7, 11], &[7, 15], &[7, 5, 13]];
    let lens: [u64; 14] = [0, 1, 2, 127, 128, 1 << 31, (1 << 32) - 1, 1 << 32, 1 << 62, (1 << 63) - 1, 1 << 63, (1 << 63) + 1, u64::MAX - 1, u64::MAX];
    for path in paths {
        for tag in 0..=255u8 {
            for len in lens {
                let mut inner = vec![tag];
                varint(len, &mut inner);
                inner.extend_from_slice(&[0x00, 0x00, 0x80, 0x3f, 1, 2, 3, 4]);
                let mut msg = inner;
                for field in path.iter().rev() { msg = wrap(*field, &msg); }
                try_parse(&msg, "structured", &mut found);
                cases += 1;
            }
        }
    }
    let _ = std::panic::take_hook();
    println!("searched {cases} byte strings");
    assert!(found == 0, "{found} inputs make the decoder panic");
}
