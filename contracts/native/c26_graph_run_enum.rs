
// ---- appended by /verif (backend `native`, unit U-graphrun-enum): bounded stand-in for C26 ----
// The REAL `Graph::run` / `Graph::partial_run` on a small fixed graph
//     x (f32, shape [N, 2])  y (no metadata)  c (constant f32 [1])
//     a_out = Add(x, c);  r_out = Relu(a_out)
// enumerated exhaustively over: input ID lists of length 0..=3 drawn from {x, y, c, the Add
// operator's ID, an unknown ID}; one of 6 value kinds for every input (f32 [3,2] = matches x's
// metadata, f32 [3] = wrong rank, f32 [3,4] = wrong fixed dim, i32 [3,2] = wrong dtype, a float
// sequence, an i32 sequence); 7 output lists; run and partial_run; each request is issued after
// a *valid* request with the same IDs where one exists (so that the plan cache is warm).
// Checked, per the property statement: no request panics, and a request with an unknown,
// duplicated or non-value node ID, a missing required input (run only), or an x value whose
// type / rank / fixed dimension contradicts the metadata returns an error.
#[cfg(test)]
mod verif_graphrun_enum {
    use std::panic::{catch_unwind, AssertUnwindSafe};

    use rten_tensor::Tensor;

    use crate::graph::{Dimension, Graph, NodeId};
    use crate::ops::{Add, Relu};
    use crate::value::{DataType, Sequence, Value, ValueType};

    fn value(kind: usize) -> Value {
        match kind {
            0 => Tensor::<f32>::zeros(&[3, 2]).into(),
            1 => Tensor::<f32>::zeros(&[3]).into(),
            2 => Tensor::<f32>::zeros(&[3, 4]).into(),
            3 => Tensor::<i32>::zeros(&[3, 2]).into(),
            4 => Value::Sequence(Sequence::from(vec![Tensor::<f32>::zeros(&[3, 2])])),
            _ => Value::Sequence(Sequence::from(vec![Tensor::<i32>::zeros(&[3, 2])])),
        }
    }

    #[test]
    fn verif_graphrun_enumerate() {
        let mut g = Graph::new();
        let x = g.add_value(
            Some("x"),
            Some(vec![Dimension::Symbolic("N".to_string()), Dimension::Fixed(2)]),
            Some(ValueType::Tensor(DataType::Float)),
        );
        let y = g.add_value(Some("y"), None, None);
        let c = g.add_constant(Some("c"), Tensor::from([1.0f32]).into_arc());
        let (add_op, a_out) = g.add_simple_op("add", Add {}, &[x, c]);
        let (_relu_op, r_out) = g.add_simple_op("relu", Relu {}, &[a_out]);
        let unknown = NodeId::from_u32(1234);

        let ids = [x, y, c, add_op, unknown];
        let is_value_or_const = |id: NodeId| id == x || id == y || id == c;
        let out_lists: [Vec<NodeId>; 7] = [
            vec![r_out], vec![a_out, r_out], vec![r_out, r_out], vec![add_op], vec![unknown], vec![], vec![x],
        ];

        let mut in_lists: Vec<Vec<NodeId>> = vec![vec![]];
        for a in ids { in_lists.push(vec![a]); }
        for a in ids { for b in ids { in_lists.push(vec![a, b]); } }
        for a in ids { for b in ids { for d in ids { in_lists.push(vec![a, b, d]); } } }

        let mut found = 0usize;
        let mut cases = 0usize;
        let mut oks = 0usize;
        for ins in &in_lists {
            for outs in &out_lists {
                for kind in 0..6usize {
                    for partial in [false, true] {
                        cases += 1;
                        // defects the property names
                        let dup_in = (0..ins.len()).any(|i| (0..i).any(|j| ins[i] == ins[j]));
                        let bad_in = ins.iter().any(|id| !is_value_or_const(*id));
                        let dup_out = (0..outs.len()).any(|i| (0..i).any(|j| outs[i] == outs[j]));
                        let bad_out = outs.iter().any(|id| !(is_value_or_const(*id) || *id == a_out || *id == r_out));
                        let x_given = ins.contains(&x);
                        let x_mismatch = x_given && kind != 0;
                        let needs_x = outs.iter().any(|id| *id == r_out || *id == a_out || *id == x);
                        let missing_x = needs_x && !x_given && !partial;
                        let must_fail = dup_in || bad_in || dup_out || bad_out || x_mismatch || missing_x;

                        let run = |k: usize| {
                            let inputs: Vec<_> = ins.iter().map(|id| (*id, value(k).into())).collect();
                            if partial {
                                g.partial_run(inputs, outs, None).map(|v| v.len())
                            } else {
                                g.run(inputs, outs, None, None).map(|v| v.len())
                            }
                        };
                        // warm the plan cache with a well-typed request for the same IDs
                        let _ = catch_unwind(AssertUnwindSafe(|| run(0).is_ok()));
                        let res = catch_unwind(AssertUnwindSafe(|| run(kind)));
                        let desc = || format!("inputs={:?} outputs={:?} value_kind={kind} partial={partial}",
                            ins.iter().map(|id| g.node_name(*id)).collect::<Vec<_>>(),
                            outs.iter().map(|id| g.node_name(*id)).collect::<Vec<_>>());
                        match res {
                            Err(_) => {
                                if found < 10 { println!("FOUND kind=graphrun panic {}", desc()); }
                                found += 1;
                            }
                            Ok(Ok(_)) if must_fail => {
                                if found < 10 { println!("FOUND kind=graphrun accepted-invalid-request {}", desc()); }
                                found += 1;
                            }
                            Ok(Ok(_)) => oks += 1,
                            Ok(Err(_)) => {}
                        }
                    }
                }
            }
        }
        println!("searched {cases} run requests ({oks} accepted)");
        assert!(oks > 0, "vacuous: no request was accepted");
        assert!(found == 0, "{found} requests violate the property");
    }
}
