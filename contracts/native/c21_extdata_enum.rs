// Bounded stand-in for C21 (backend `native`): the REAL model loaders (`Model::load_file` with the
// file loader, `ModelOptions::external_data(..).load(..)` with the in-memory loader) on a tiny
// hand-encoded ONNX model whose single initializer lives in external data, enumerated over
//   40 location strings (plain names, unknown extensions, sub-directories, `..`, absolute paths,
//   `./`, Windows-style separators and drive prefixes, empty, trailing separators, unicode) x
//   10 (offset, length) pairs incl. ranges straddling the end of the file and sums that overflow.
// Directory layout for the file loader:  <tmp>/secret.data   <tmp>/model/{model.onnx, weights.data,
// w.onnx_data, notes.txt, sub/inner.data}.
// Checked, per the property statement: a successful load returns exactly the bytes
// [offset, offset + length) of a file *directly inside the model directory whose name is the
// location string itself* (for the in-memory loader: of the buffer registered under that name),
// the location is a single plain file name, and the range lies within the file; everything else
// is a load error. Nothing panics.
use std::path::PathBuf;

use rten::{Model, ModelOptions};
use rten_tensor::AsView;

// --- Minimal Protocol Buffers encoder for building ONNX models ---

fn varint(mut x: u64, out: &mut Vec<u8>) {
    loop {
        let byte = (x & 0x7f) as u8;
        x >>= 7;
        if x == 0 {
            out.push(byte);
            break;
        }
        out.push(byte | 0x80);
    }
}

fn int_field(field: u64, val: u64, out: &mut Vec<u8>) {
    varint(field << 3, out);
    varint(val, out);
}

fn bytes_field(field: u64, val: &[u8], out: &mut Vec<u8>) {
    varint((field << 3) | 2, out);
    varint(val.len() as u64, out);
    out.extend_from_slice(val);
}

/// Build an ONNX model with a single uint8 initializer "w" of shape `[len]`
/// stored in an external file, and an `Identity` node which copies it to the
/// graph output "out".
fn onnx_model_with_external_data(location: &str, offset: u64, length: u64, len: u64) -> Vec<u8> {
    let entry = |key: &str, value: &str| {
        let mut buf = Vec::new();
        bytes_field(1, key.as_bytes(), &mut buf);
        bytes_field(2, value.as_bytes(), &mut buf);
        buf
    };

    // TensorProto
    let mut tensor = Vec::new();
    int_field(1, len, &mut tensor); // dims
    int_field(2, 2, &mut tensor); // data_type = UINT8
    bytes_field(8, b"w", &mut tensor); // name
    bytes_field(13, &entry("location", location), &mut tensor);
    bytes_field(13, &entry("offset", &offset.to_string()), &mut tensor);
    bytes_field(13, &entry("length", &length.to_string()), &mut tensor);
    int_field(14, 1, &mut tensor); // data_location = EXTERNAL

    // NodeProto
    let mut node = Vec::new();
    bytes_field(1, b"w", &mut node); // input
    bytes_field(2, b"out", &mut node); // output
    bytes_field(3, b"identity", &mut node); // name
    bytes_field(4, b"Identity", &mut node); // op_type

    // ValueInfoProto for graph output
    let mut output = Vec::new();
    bytes_field(1, b"out", &mut output);

    // GraphProto
    let mut graph = Vec::new();
    bytes_field(1, &node, &mut graph);
    bytes_field(2, b"graph", &mut graph);
    bytes_field(5, &tensor, &mut graph);
    bytes_field(12, &output, &mut graph);

    // OperatorSetIdProto
    let mut opset = Vec::new();
    bytes_field(1, b"", &mut opset);
    int_field(2, 17, &mut opset);

    // ModelProto
    let mut model = Vec::new();
    int_field(1, 8, &mut model); // ir_version
    bytes_field(7, &graph, &mut model);
    bytes_field(8, &opset, &mut model);
    model
}

fn run_model(model: &Model) -> Vec<u8> {
    let out_id = model.node_id("out").unwrap();
    let [out] = model.run_n(vec![], [out_id], None).unwrap();
    let out: rten_tensor::Tensor<u8> = out.try_into().unwrap();
    out.to_vec()
}

/// Temporary directory which is removed on drop.
struct TempDir(PathBuf);

impl TempDir {
    fn new(name: &str) -> TempDir {
        let mut path = std::env::temp_dir();
        path.push(format!("{}-{}", name, std::process::id()));
        let _ = std::fs::remove_dir_all(&path);
        std::fs::create_dir_all(&path).unwrap();
        TempDir(path)
    }
}

impl Drop for TempDir {
    fn drop(&mut self) {
        let _ = std::fs::remove_dir_all(&self.0);
    }
}


const FILE_LEN: u64 = 32;

fn locations(abs_secret: &str) -> Vec<String> {
    let mut v: Vec<String> = [
        "weights.data", "w.onnx_data", "notes.txt", "weights", "weights.data.bak", "missing.data",
        "sub/inner.data", "sub\\inner.data", "./weights.data", ".\\weights.data", "../secret.data",
        "..\\secret.data", "../model/weights.data", "sub/../weights.data", "sub/../../secret.data",
        "", ".", "..", "/", "\\", "weights.data/", "weights.data\\", "/weights.data", "\\weights.data",
        "C:\\weights.data", "C:weights.data", "//host/share/weights.data", "\\\\host\\share\\weights.data",
        "weights.data\0", "w\u{e9}ights.data", "\u{2215}weights.data", ".data", "..data", "...data",
        " weights.data", "weights.data ", "WEIGHTS.DATA", "sub", "sub/", "model.onnx",
    ].iter().map(|s| s.to_string()).collect();
    v.push(abs_secret.to_string());
    v
}

fn ranges() -> Vec<(u64, u64)> {
    vec![(0, 8), (8, 8), (24, 8), (25, 8), (32, 1), (0, 32), (0, 33), (u64::MAX, 8), (8, u64::MAX), (u64::MAX / 2 + 1, u64::MAX / 2 + 8)]
}

/// "A single plain file name" in the sense of std::path on this platform: exactly one `Normal`
/// component (so `weights.data/` is the same file as `weights.data`, and on Unix `..\\secret.data`
/// is an ordinary file name *inside* the model directory). What must never happen is that the
/// loader reads anything but the file of that name directly inside the model directory -- the
/// expected bytes below are read independently from `model_dir.join(location)`.
fn is_plain_name(loc: &str) -> bool {
    use std::path::{Component, Path};
    let mut c = Path::new(loc).components();
    matches!(c.next(), Some(Component::Normal(_))) && c.next().is_none()
}

#[test]
fn enumerate() {
    let root = TempDir::new("rten-verif-c21");
    let model_dir = root.0.join("model");
    std::fs::create_dir_all(model_dir.join("sub")).unwrap();
    let secret: Vec<u8> = (100..132).collect();
    let weights: Vec<u8> = (0..32).collect();
    let w2: Vec<u8> = (32..64).collect();
    let notes: Vec<u8> = (64..96).collect();
    let inner: Vec<u8> = (200..232).collect();
    std::fs::write(root.0.join("secret.data"), &secret).unwrap();
    std::fs::write(model_dir.join("weights.data"), &weights).unwrap();
    std::fs::write(model_dir.join("w.onnx_data"), &w2).unwrap();
    std::fs::write(model_dir.join("notes.txt"), &notes).unwrap();
    std::fs::write(model_dir.join("sub").join("inner.data"), &inner).unwrap();
    let abs_secret = root.0.join("secret.data").to_string_lossy().to_string();

    let mut found = 0usize;
    let mut cases = 0usize;
    let mut oks = 0usize;
    for loc in locations(&abs_secret) {
        for (offset, length) in ranges() {
            let len = if length <= 64 { length } else { 8 };
            let bytes = onnx_model_with_external_data(&loc, offset, length, len);
            // --- file loader
            cases += 1;
            let model_path = model_dir.join("model.onnx");
            std::fs::write(&model_path, &bytes).unwrap();
            let res = std::panic::catch_unwind(|| Model::load_file(&model_path).ok().map(|m| run_model(&m)));
            match res {
                Err(_) => { if found < 10 { println!("FOUND kind=extdata file-loader panic location={loc:?} offset={offset} length={length}"); } found += 1; }
                Ok(Some(got)) => {
                    oks += 1;
                    // what the property allows: a plain name, a file directly inside the model dir, range inside it
                    let expected = if is_plain_name(&loc) { std::fs::read(model_dir.join(&loc)).ok() } else { None };
                    let ok = match expected {
                        Some(file) => offset.checked_add(length).is_some_and(|end| end <= file.len() as u64)
                            && got == file[offset as usize..(offset + length) as usize],
                        None => false,
                    };
                    if !ok {
                        if found < 10 { println!("FOUND kind=extdata file-loader accepted location={loc:?} offset={offset} length={length} returned={got:?}"); }
                        found += 1;
                    }
                }
                Ok(None) => {}
            }
            // --- in-memory loader: the buffer is registered under the location string itself
            cases += 1;
            let buf: Vec<u8> = (0..FILE_LEN as u8).collect();
            let (l2, b2, m2) = (loc.clone(), buf.clone(), bytes.clone());
            let res = std::panic::catch_unwind(move || {
                ModelOptions::with_all_ops().external_data(&l2, b2).load(m2).ok().map(|m| run_model(&m))
            });
            match res {
                Err(_) => { if found < 10 { println!("FOUND kind=extdata mem-loader panic location={loc:?} offset={offset} length={length}"); } found += 1; }
                Ok(Some(got)) => {
                    oks += 1;
                    let ok = is_plain_name(&loc) && offset.checked_add(length).is_some_and(|end| end <= FILE_LEN)
                        && got == buf[offset as usize..(offset + length) as usize];
                    if !ok {
                        if found < 10 { println!("FOUND kind=extdata mem-loader accepted location={loc:?} offset={offset} length={length} returned={got:?}"); }
                        found += 1;
                    }
                }
                Ok(None) => {}
            }
        }
    }
    println!("searched {cases} (loader, location, offset, length) combinations ({oks} accepted)");
    assert!(oks > 0, "vacuous: nothing was accepted");
    assert!(found == 0, "{found} combinations violate the property");
}
