// Bounded stand-in for C29 (backend `native`): the REAL `Tokenizer::encode_chunks` with a
// byte-level stand-in model (every byte of the input is one token whose id is the byte; "[CLS]" /
// "[SEP]" are ids 1000 / 1001), no normalizer, no pre-tokenizer, enumerated exhaustively over
//   single inputs of 0..=9 tokens and pairs of (0..=3, 0..=8) tokens, max_chunk_len 0..=12,
//   overlap 0..=3, CLS and SEP present or not.
// Checked, per the property statement: every chunk has at most max_chunk_len tokens including
// special tokens; each chunk's content tokens are a contiguous window of the full encoding; every
// window but the last is full and starts exactly (window - overlap) after its predecessor; the last
// window ends at the end of the encoding and leaves no gap. (Whether the *trailing short* window
// overlaps its predecessor by exactly `overlap` is known finding D11 of U-chunks and not demanded
// again; overlap >= window is rejected by a documented panic and skipped.)
use rten_text::models::{DecodeError, EncodeError, Model};
use rten_text::tokenizer::{EncodeOptions, EncoderInput, TokenizerOptions};
use rten_text::{TokenId, Tokenizer};
use std::panic::{catch_unwind, AssertUnwindSafe};

struct ByteModel;

impl Model for ByteModel {
    fn get_token_id(&self, token: &str) -> Option<TokenId> {
        match token { "[CLS]" => Some(1000), "[SEP]" => Some(1001), _ => None }
    }
    fn get_token_str(&self, _id: TokenId) -> Option<String> { None }
    fn encode_with_offsets(&self, text: &str, on_token: &mut dyn FnMut(usize, TokenId)) -> Result<(), EncodeError> {
        for (i, b) in text.bytes().enumerate() { on_token(i, b as TokenId); }
        Ok(())
    }
    fn decode(&self, _ids: &[TokenId]) -> Result<String, DecodeError> { Ok(String::new()) }
}

fn tokenizer(cls: bool, sep: bool) -> Tokenizer {
    Tokenizer::new(ByteModel, TokenizerOptions {
        cls_token: if cls { Some("[CLS]") } else { None },
        sep_token: if sep { Some("[SEP]") } else { None },
    })
}

const FIRST: &str = "uvw";
const TEXT: &str = "abcdefghi";

/// Returns a description of the first violated clause, if any.
fn check_windows(chunks: &[Vec<TokenId>], full: &[u8], window: usize, overlap: usize) -> Option<String> {
    let mut covered = 0usize;
    for (c, content) in chunks.iter().enumerate() {
        let n = content.len();
        if n == 0 || n > window { return Some(format!("window {c} has {n} content tokens (window {window})")); }
        let Some(start) = full.iter().position(|b| *b as TokenId == content[0]) else {
            return Some(format!("window {c} starts with a token that is not in the encoding"));
        };
        for k in 0..n {
            if start + k >= full.len() || content[k] != full[start + k] as TokenId {
                return Some(format!("window {c} is not a contiguous window of the full encoding"));
            }
        }
        if c + 1 < chunks.len() {
            if n != window { return Some(format!("window {c} is short but not last")); }
            if start != c * (window - overlap) { return Some(format!("window {c} starts at {start}, expected {}", c * (window - overlap))); }
        } else if start + n != full.len() {
            return Some(format!("last window ends at {} of {}", start + n, full.len()));
        }
        if start > covered { return Some(format!("tokens {covered}..{start} are skipped")); }
        covered = start + n;
    }
    None
}

#[test]
fn enumerate() {
    std::panic::set_hook(Box::new(|_| {}));   // panics are reported through FOUND lines
    let mut found = 0usize;
    let mut cases = 0usize;
    for cls in [false, true] {
        for sep in [false, true] {
            let t = tokenizer(cls, sep);
            for max in 0..=12usize {
                for overlap in 0..=3usize {
                    // single inputs
                    for len in 0..=TEXT.len() {
                        let text = &TEXT[..len];
                        let overhead = cls as usize + sep as usize;
                        let window = max.saturating_sub(overhead);
                        if window > 0 && overlap >= window { continue; }
                        cases += 1;
                        let opts = EncodeOptions { max_chunk_len: Some(max), overlap };
                        let res = catch_unwind(AssertUnwindSafe(|| t.encode_chunks(EncoderInput::Item(text), opts)));
                        let Ok(res) = res else {
                            if found < 10 { println!("FOUND kind=single cls={cls} sep={sep} max={max} overlap={overlap} len={len} problem=panic"); }
                            found += 1;
                            continue;
                        };
                        let chunks = match res {
                            Ok(c) => c,
                            Err(e) => { if found < 10 { println!("FOUND kind=single cls={cls} sep={sep} max={max} overlap={overlap} len={len} error={e:?}"); found += 1; } continue; }
                        };
                        let mut problem = None;
                        let mut contents = Vec::new();
                        for ch in &chunks {
                            let ids = ch.token_ids();
                            if ids.len() > max { problem = Some(format!("chunk has {} tokens", ids.len())); }
                            if cls && ids.first() != Some(&1000) { problem = Some("missing CLS".into()); }
                            if sep && ids.last() != Some(&1001) { problem = Some("missing SEP".into()); }
                            contents.push(ids.iter().copied().filter(|i| *i < 1000).collect::<Vec<_>>());
                        }
                        if problem.is_none() {
                            problem = if window == 0 || len == 0 {
                                if chunks.is_empty() { None } else { Some("chunks produced although no content token fits / exists".into()) }
                            } else if chunks.is_empty() { Some("no chunks".into()) } else { check_windows(&contents, text.as_bytes(), window, overlap) };
                        }
                        if let Some(p) = problem {
                            if found < 10 { println!("FOUND kind=single cls={cls} sep={sep} max={max} overlap={overlap} len={len} problem={p}"); found += 1; }
                        }
                    }
                    // pairs
                    for len_a in 0..=FIRST.len() {
                        for len_b in 0..=8usize {
                            let (a, b) = (&FIRST[..len_a], &TEXT[..len_b]);
                            let overhead = cls as usize + 2 * (sep as usize);
                            let total = max.saturating_sub(overhead);
                            let first_len = len_a.min(total);
                            let window = len_b.min(total - first_len);
                            if window > 0 && overlap >= window { continue; }
                            cases += 1;
                            let opts = EncodeOptions { max_chunk_len: Some(max), overlap };
                            let res = catch_unwind(AssertUnwindSafe(|| t.encode_chunks(EncoderInput::Pair((a, b)), opts)));
                            let Ok(res) = res else {
                                if found < 10 { println!("FOUND kind=pair cls={cls} sep={sep} max={max} overlap={overlap} len=({len_a},{len_b}) problem=panic"); }
                                found += 1;
                                continue;
                            };
                            let chunks = match res {
                                Ok(c) => c,
                                Err(e) => { if found < 10 { println!("FOUND kind=pair cls={cls} sep={sep} max={max} overlap={overlap} len=({len_a},{len_b}) error={e:?}"); found += 1; } continue; }
                            };
                            let mut problem = None;
                            let mut contents = Vec::new();
                            for ch in &chunks {
                                let ids = ch.token_ids();
                                if ids.len() > max { problem = Some(format!("chunk has {} tokens", ids.len())); }
                                let mut p = 0;
                                if cls { if ids.first() != Some(&1000) { problem = Some("missing CLS".into()); } p = 1; }
                                for k in 0..first_len {
                                    if ids.get(p + k) != Some(&(a.as_bytes()[k] as TokenId)) { problem = Some("first sequence is not a prefix of its encoding".into()); }
                                }
                                p += first_len;
                                if sep { if ids.get(p) != Some(&1001) { problem = Some("missing first SEP".into()); } p += 1; }
                                let last = ids.len() - sep as usize;
                                if sep && ids.last() != Some(&1001) { problem = Some("missing last SEP".into()); }
                                if p <= last { contents.push(ids[p..last].to_vec()); } else { problem = Some("chunk too short".into()); }
                            }
                            if problem.is_none() {
                                problem = if window == 0 {
                                    if chunks.is_empty() { None } else { Some("chunks produced although no content token fits / exists".into()) }
                                } else if chunks.is_empty() { Some("no chunks".into()) } else { check_windows(&contents, b.as_bytes(), window, overlap) };
                            }
                            if let Some(p) = problem {
                                if found < 10 { println!("FOUND kind=pair cls={cls} sep={sep} max={max} overlap={overlap} len=({len_a},{len_b}) problem={p}"); found += 1; }
                            }
                        }
                    }
                }
            }
        }
    }
    let _ = std::panic::take_hook();
    println!("searched {cases} (input, limit, overlap, special-token) combinations");
    assert!(found == 0);
}
