// Native counterexample search for C11 (used by ./check only AFTER a Verus obligation of the SymExpr
// units has failed, to attach a concrete failing input to the VIOLATION report; it decides
// nothing by itself). Enumerates small expression trees and assignments against the real crate:
//   * simplify():   eval(simplify(e)) == eval(e) wherever e evaluates (checked arithmetic),
//                   skipping the three recorded finding classes F1-F3 (KNOWN_FINDINGS.txt)
//   * range():      range(e) contains eval(e);   is_positive(e) => eval(e) >= 0
// Prints one line `FOUND kind=<..> expr=<..> env=<..> expected=<..> got=<..>` per failing input (at most 5
// per kind) and fails if any was found.
use rten_shape_inference::{SymExpr, SymbolMap};
use std::sync::Arc;

const CONSTS: [i32; 8] = [-3, -1, 0, 1, 2, 3, 5, 65536];

/// Checked evaluation mirroring SymExpr::eval. None = the original does not evaluate (overflow,
/// division by zero) or lies in a masked class.
fn ev(e: &SymExpr, x: i32, p: i32, masked: &mut bool) -> Option<i32> {
    Some(match e {
        SymExpr::Value(v) => *v,
        SymExpr::Var(s) => if s.name == "p" { p } else { x },
        SymExpr::Neg(a) => ev(a, x, p, masked)?.checked_neg()?,
        SymExpr::Add(a, b) => ev(a, x, p, masked)?.checked_add(ev(b, x, p, masked)?)?,
        SymExpr::Sub(a, b) => ev(a, x, p, masked)?.checked_sub(ev(b, x, p, masked)?)?,
        SymExpr::Mul(a, b) => ev(a, x, p, masked)?.checked_mul(ev(b, x, p, masked)?)?,
        SymExpr::Div(a, b) => {
            let (l, r) = (ev(a, x, p, masked)?, ev(b, x, p, masked)?);
            if r == 0 { return None; }
            l.checked_div(r)?
        }
        SymExpr::DivCeil(a, b) => {
            let (l, r) = (ev(a, x, p, masked)?, ev(b, x, p, masked)?);
            if r == 0 { return None; }
            if r < 0 { *masked = true; }          // F2
            if l == i32::MIN && r == -1 { return None; }
            let (d, m) = (l / r, l % r);
            if m != 0 && ((m < 0) == (r < 0)) { d + 1 } else { d }
        }
        SymExpr::Max(a, b) => ev(a, x, p, masked)?.max(ev(b, x, p, masked)?),
        SymExpr::Min(a, b) => ev(a, x, p, masked)?.min(ev(b, x, p, masked)?),
        SymExpr::Broadcast(a, b) => {
            let (l, r) = (ev(a, x, p, masked)?, ev(b, x, p, masked)?);
            if !(l >= 1 && r >= 1 && (l == r || l == 1 || r == 1)) { *masked = true; }   // F3
            l.max(r)
        }
    })
}

fn leaves() -> Vec<SymExpr> {
    let mut v: Vec<SymExpr> = CONSTS.iter().map(|c| SymExpr::Value(*c)).collect();
    v.push(SymExpr::var("x"));
    v.push(SymExpr::pos_var("p"));
    v
}

fn combine(a: &SymExpr, b: &SymExpr, out: &mut Vec<SymExpr>) {
    let (x, y): (Arc<SymExpr>, Arc<SymExpr>) = (a.clone().into(), b.clone().into());
    out.push(SymExpr::Add(x.clone(), y.clone()));
    out.push(SymExpr::Sub(x.clone(), y.clone()));
    out.push(SymExpr::Mul(x.clone(), y.clone()));
    out.push(SymExpr::Div(x.clone(), y.clone()));
    out.push(SymExpr::DivCeil(x.clone(), y.clone()));
    out.push(SymExpr::Max(x.clone(), y.clone()));
    out.push(SymExpr::Min(x.clone(), y.clone()));
    out.push(SymExpr::Broadcast(x.clone(), y.clone()));
}

fn check(e: &SymExpr, found: &mut [usize; 3]) {
    let simplified = e.simplify();
    let (lo, hi) = e.range();
    let nonneg = e.is_positive();
    let mut rep = [false; 3];   // this expression already reported for kind k
    for x in -4..=5 {
        for p in 0..=3 {
            let mut masked = false;
            let Some(want) = ev(e, x, p, &mut masked) else { continue };
            let bindings = [("x", x), ("p", p)];
            let env = SymbolMap::new(&bindings);
            // Broadcast operands >= 0 is the premise of range/is_positive (documented meaning)
            if found[1] < 5 && !rep[1] && !(lo <= want && want <= hi) && !masked {
                println!("FOUND kind=range expr={e:?} env=x={x},p={p} expected=[{lo},{hi}] got={want}");
                found[1] += 1;
                rep[1] = true;
            }
            if found[2] < 5 && !rep[2] && nonneg && want < 0 && !masked {
                println!("FOUND kind=is_positive expr={e:?} env=x={x},p={p} expected=>=0 got={want}");
                found[2] += 1;
                rep[2] = true;
            }
            if masked || found[0] >= 5 || rep[0] { continue; }
            let mut m2 = false;
            // F1: the result may overflow where the original does not (masked class): compare only
            // where the simplified expression evaluates under checked arithmetic
            let Some(got_checked) = ev(&simplified, x, p, &mut m2) else { continue };
            let got = simplified.eval(&env).ok();
            if got != Some(want) || got_checked != want {
                println!("FOUND kind=simplify expr={e:?} simplified={simplified:?} env=x={x},p={p} expected={want} got={got:?}");
                found[0] += 1;
                rep[0] = true;
            }
        }
    }
}

#[test]
fn search() {
    let l = leaves();
    let mut d1: Vec<SymExpr> = Vec::new();
    for a in &l {
        d1.push(SymExpr::Neg(a.clone().into()));
        for b in &l { combine(a, b, &mut d1); }
    }
    let mut found = [0usize; 3];
    for e in l.iter().chain(d1.iter()) { check(e, &mut found); }
    // depth 2: one side a depth-1 tree, the other a leaf (both orders), plus Neg
    let mut n = 0usize;
    for a in &d1 {
        check(&SymExpr::Neg(a.clone().into()), &mut found);
        for b in &l {
            let mut out = Vec::new();
            combine(a, b, &mut out);
            combine(b, a, &mut out);
            for e in &out { check(e, &mut found); n += 1; }
        }
        if found.iter().all(|c| *c >= 5) { break; }
    }
    // depth 2 with two depth-1 children (needed e.g. for a product of two Max nodes); only while
    // nothing has been found, since it is the expensive part
    let mut n2 = 0usize;
    if found == [0, 0, 0] {
        'outer: for a in &d1 {
            for b in &d1 {
                let mut out = Vec::new();
                combine(a, b, &mut out);
                for e in &out { check(e, &mut found); n2 += 1; }
                if found != [0, 0, 0] { break 'outer; }
            }
        }
    }
    println!("searched {} two-sided depth-2 trees", n2);
    println!("searched {} leaves, {} depth-1 and {} depth-2 trees x 40 assignments", l.len(), d1.len(), n);
    assert!(found == [0, 0, 0], "failing inputs found: {:?}", found);
}
