// Bounded stand-in for the layout transformations / element movement of C09 that neither verifier
// executes (backend `native`): the REAL tensor operations through the public API on a family of
// small views, compared with a NAIVE NESTED-ARRAY MODEL (shape + row-major element list, with its
// own index arithmetic).
//   sources: base tensors of rank 1..=3 with sizes 0..=3 (distinct values), as they are and under
//   every axis permutation, a step-2 / reversed / [1..] slice of every axis; plus four larger
//   transposed / permuted sources that reach the blocked-copy path of copy.rs.
//   operations: permuted (all), transposed, move_axis (all pairs), index_axis (all), slice_axis
//   (all ranges), split_at (all), squeezed, insert_axis / remove_axis (all positions), broadcast of
//   every size-1 axis, reshaped / to_shape to [len] and to a 2-way factorisation, merge_axes,
//   to_vec / to_tensor / to_contiguous / to_slice / map / copy_into_slice, clip_dim, append.
// Checked: the result has exactly the model's shape and elements (both by indexing and through
// the copying path), or the operation reports an error; never silently lossy.
use std::mem::MaybeUninit;

use rten_tensor::prelude::*;
use rten_tensor::{SliceItem, Tensor, TensorView};

#[derive(Clone, Debug, PartialEq)]
struct Model { shape: Vec<usize>, data: Vec<i32> }

fn strides(shape: &[usize]) -> Vec<usize> {
    let mut s = vec![1; shape.len()];
    for i in (0..shape.len().saturating_sub(1)).rev() { s[i] = s[i + 1] * shape[i + 1]; }
    s
}

fn indices(shape: &[usize]) -> Vec<Vec<usize>> {
    let mut out = vec![vec![]];
    for &s in shape {
        let mut next = Vec::new();
        for idx in &out { for i in 0..s { let mut v = idx.clone(); v.push(i); next.push(v); } }
        out = next;
    }
    out
}

impl Model {
    fn at(&self, idx: &[usize]) -> i32 {
        let st = strides(&self.shape);
        self.data[idx.iter().zip(st.iter()).map(|(i, s)| i * s).sum::<usize>()]
    }
    /// new tensor whose element at `idx` is `self.at(f(idx))`
    fn remap(&self, shape: Vec<usize>, f: impl Fn(&[usize]) -> Vec<usize>) -> Model {
        let data = indices(&shape).iter().map(|idx| self.at(&f(idx))).collect();
        Model { shape, data }
    }
    fn permuted(&self, perm: &[usize]) -> Model {
        let shape = perm.iter().map(|p| self.shape[*p]).collect();
        let perm = perm.to_vec();
        self.remap(shape, move |idx| { let mut src = vec![0; idx.len()]; for (k, p) in perm.iter().enumerate() { src[*p] = idx[k]; } src })
    }
    fn slice_axis(&self, axis: usize, start: usize, end: usize, step: isize) -> Model {
        // python semantics for in-range start/end; step > 0: start..end, step < 0: indices start, start+step, .. > end (end may be -1 => usize::MAX marker)
        let mut picked = Vec::new();
        if step > 0 { let mut i = start; while i < end { picked.push(i); i += step as usize; } }
        else { let mut i = start as isize; let stop = if end == usize::MAX { -1 } else { end as isize }; while i > stop { picked.push(i as usize); i += step; } }
        let mut shape = self.shape.clone();
        shape[axis] = picked.len();
        self.remap(shape, move |idx| { let mut src = idx.to_vec(); src[axis] = picked[idx[axis]]; src })
    }
    fn index_axis(&self, axis: usize, i: usize) -> Model {
        let mut shape = self.shape.clone();
        shape.remove(axis);
        self.remap(shape, move |idx| { let mut src = idx.to_vec(); src.insert(axis, i); src })
    }
    fn insert_axis(&self, axis: usize) -> Model {
        let mut shape = self.shape.clone();
        shape.insert(axis, 1);
        Model { shape, data: self.data.clone() }
    }
    fn broadcast(&self, shape: Vec<usize>) -> Model {
        let own = self.shape.clone();
        self.remap(shape, move |idx| idx.iter().zip(own.iter()).map(|(i, s)| if *s == 1 { 0 } else { *i }).collect())
    }
    fn reshaped(&self, shape: Vec<usize>) -> Model { Model { shape, data: self.data.clone() } }
}

fn view_model(v: &TensorView<i32>) -> Model {
    Model { shape: v.shape().to_vec(), data: indices(v.shape()).iter().map(|i| *v.get(i.as_slice()).unwrap()).collect() }
}

struct Ctx { found: usize, cases: usize }

impl Ctx {
    fn expect(&mut self, got: &TensorView<i32>, want: &Model, what: &str, desc: &str) {
        self.cases += 1;
        let by_index = view_model(got);
        let copied = Model { shape: got.shape().to_vec(), data: got.to_vec() };
        if &by_index != want || &copied != want {
            if self.found < 10 { println!("FOUND kind=xform op={what} source={desc} expected_shape={:?} got_shape={:?}", want.shape, got.shape()); }
            self.found += 1;
        }
    }
    fn fail(&mut self, what: &str, desc: &str) {
        if self.found < 10 { println!("FOUND kind=xform op={what} source={desc}"); }
        self.found += 1;
    }
}

fn perms(n: usize) -> Vec<Vec<usize>> {
    match n { 0 => vec![vec![]], 1 => vec![vec![0]], 2 => vec![vec![0, 1], vec![1, 0]],
        _ => vec![vec![0, 1, 2], vec![0, 2, 1], vec![1, 0, 2], vec![1, 2, 0], vec![2, 0, 1], vec![2, 1, 0]] }
}

fn check_source(v: TensorView<i32>, m: &Model, desc: &str, cx: &mut Ctx) {
    let nd = v.ndim();
    cx.expect(&v, m, "source", desc);
    // copying paths
    let t = v.to_tensor();
    cx.expect(&t.view(), m, "to_tensor", desc);
    if !t.is_contiguous() { cx.fail("to_tensor not contiguous", desc); }
    let c = v.to_contiguous();
    cx.expect(&c.view(), m, "to_contiguous", desc);
    if v.to_slice().as_ref() != m.data.as_slice() { cx.fail("to_slice", desc); }
    let mapped = v.map(|x| x + 7);
    let mm = Model { shape: m.shape.clone(), data: m.data.iter().map(|x| x + 7).collect() };
    cx.expect(&mapped.view(), &mm, "map", desc);
    let mut buf: Vec<MaybeUninit<i32>> = (0..m.data.len()).map(|_| MaybeUninit::uninit()).collect();
    if v.copy_into_slice(&mut buf) != m.data.as_slice() { cx.fail("copy_into_slice", desc); }
    // views
    for p in perms(nd) { cx.expect(&v.permuted(&p), &m.permuted(&p), "permuted", desc); }
    let rev: Vec<usize> = (0..nd).rev().collect();
    cx.expect(&v.transposed(), &m.permuted(&rev), "transposed", desc);
    for from in 0..nd { for to in 0..nd {
        let mut w = v.clone();
        w.move_axis(from, to);
        let mut order: Vec<usize> = (0..nd).filter(|d| *d != from).collect();
        order.insert(to, from);
        cx.expect(&w, &m.permuted(&order), "move_axis", desc);
    } }
    for axis in 0..nd {
        for i in 0..m.shape[axis] { cx.expect(&v.index_axis(axis, i), &m.index_axis(axis, i), "index_axis", desc); }
        for s in 0..=m.shape[axis] { for e in s..=m.shape[axis] {
            cx.expect(&v.slice_axis(axis, s..e), &m.slice_axis(axis, s, e, 1), "slice_axis", desc);
        } }
        for mid in 0..=m.shape[axis] {
            let (l, r) = v.split_at(axis, mid);
            cx.expect(&l, &m.slice_axis(axis, 0, mid, 1), "split_at.left", desc);
            cx.expect(&r, &m.slice_axis(axis, mid, m.shape[axis], 1), "split_at.right", desc);
        }
        if m.shape[axis] == 1 {
            let mut target = m.shape.clone();
            target[axis] = 3;
            cx.expect(&v.broadcast(target.as_slice()), &m.broadcast(target), "broadcast", desc);
            let mut w = v.clone();
            w.remove_axis(axis);
            cx.expect(&w, &m.index_axis(axis, 0), "remove_axis", desc);
        }
        // clip_dim on an owned copy
        for s in 0..=m.shape[axis] { for e in s..=m.shape[axis] {
            let mut owned = v.to_tensor();
            owned.clip_dim(axis, s..e);
            cx.expect(&owned.view(), &m.slice_axis(axis, s, e, 1), "clip_dim", desc);
        } }
        // stepped / reversed slices of the source
        let n = m.shape[axis];
        for (name, item, model) in [
            ("step2", SliceItem::range(0, None, 2), m.slice_axis(axis, 0, n, 2)),
            ("rev", SliceItem::range(-1, None, -1), if n == 0 { m.slice_axis(axis, 0, 0, 1) } else { m.slice_axis(axis, n - 1, usize::MAX, -1) }),
            ("rev2", SliceItem::range(-1, None, -2), if n == 0 { m.slice_axis(axis, 0, 0, 1) } else { m.slice_axis(axis, n - 1, usize::MAX, -2) }),
        ] {
            let mut items: Vec<SliceItem> = (0..nd).map(|_| SliceItem::full_range()).collect();
            items[axis] = item;
            match v.try_slice_dyn(items.as_slice()) {
                Ok(s) => cx.expect(&s, &model, name, desc),
                Err(_) => {}   // an error is allowed (views reject negative steps: InvalidStep); a wrong result is not
            }
        }
    }
    // a target size that differs from a source size > 1 is not a broadcast: must be an error
    for axis in 0..nd {
        for bad in [0usize, 1, 2, 5] {
            if m.shape[axis] <= 1 || bad == m.shape[axis] { continue; }
            let mut target = m.shape.clone();
            target[axis] = bad;
            cx.cases += 1;
            if v.try_broadcast(target.as_slice()).is_ok() || v.can_broadcast_to(&target) {
                cx.fail("try_broadcast accepted an incompatible target", desc);
            }
        }
    }
    // the static-rank layouts (NdLayout) have their own permuted / transposed / split / index_axis
    if nd == 2 {
        let nv = v.nd_view::<2>();
        for p in perms(2) { cx.expect(&nv.permuted([p[0], p[1]]).as_dyn(), &m.permuted(&p), "NdLayout<2>::permuted", desc); }
        cx.expect(&nv.transposed().as_dyn(), &m.permuted(&[1, 0]), "NdLayout<2>::transposed", desc);
    }
    if nd == 3 {
        let nv = v.nd_view::<3>();
        for p in perms(3) { cx.expect(&nv.permuted([p[0], p[1], p[2]]).as_dyn(), &m.permuted(&p), "NdLayout<3>::permuted", desc); }
        cx.expect(&nv.transposed().as_dyn(), &m.permuted(&[2, 1, 0]), "NdLayout<3>::transposed", desc);
        for axis in 0..3 {
            for i in 0..m.shape[axis] { cx.expect(&nv.index_axis(axis, i).as_dyn(), &m.index_axis(axis, i), "NdLayout<3>::index_axis", desc); }
            for mid in 0..=m.shape[axis] {
                let (l, r) = nv.split_at(axis, mid);
                cx.expect(&l.as_dyn(), &m.slice_axis(axis, 0, mid, 1), "NdLayout<3>::split_at.left", desc);
                cx.expect(&r.as_dyn(), &m.slice_axis(axis, mid, m.shape[axis], 1), "NdLayout<3>::split_at.right", desc);
            }
            let mut w = nv.clone();
            for to in 0..3 { let mut w2 = w.clone(); w2.move_axis(axis, to);
                let mut order: Vec<usize> = (0..3).filter(|d| *d != axis).collect();
                order.insert(to, axis);
                cx.expect(&w2.as_dyn(), &m.permuted(&order), "NdLayout<3>::move_axis", desc); }
            let _ = &mut w;
        }
    }
    for axis in 0..=nd {
        let mut w = v.clone();
        w.insert_axis(axis);
        cx.expect(&w, &m.insert_axis(axis), "insert_axis", desc);
    }
    let sq_shape: Vec<usize> = m.shape.iter().copied().filter(|s| *s != 1).collect();
    cx.expect(&v.squeezed(), &m.reshaped(sq_shape), "squeezed", desc);
    // reshapes (copy if the layout requires it)
    let len = m.data.len();
    cx.expect(&v.reshaped([len]).view().as_dyn(), &m.reshaped(vec![len]), "reshaped[len]", desc);
    cx.expect(&v.to_shape([len]).view().as_dyn(), &m.reshaped(vec![len]), "to_shape[len]", desc);
    for a in 1..=len { if len % a == 0 {
        cx.expect(&v.reshaped([a, len / a]).view().as_dyn(), &m.reshaped(vec![a, len / a]), "reshaped[a,b]", desc);
    } }
    let mut w = v.clone();
    w.merge_axes();
    if w.len() != len || w.to_vec() != m.data { cx.fail("merge_axes changed the element sequence", desc); }
}

#[test]
fn enumerate() {
    let mut cx = Ctx { found: 0, cases: 0 };
    let mut shapes: Vec<Vec<usize>> = Vec::new();
    // under Miri (unit U-xform-miri: undefined-behaviour check of the same code) the domain is smaller
    let max = if cfg!(miri) { 2 } else { 3 };
    for a in 0..=max { shapes.push(vec![a]); for b in 0..=max { shapes.push(vec![a, b]); for c in 0..=max {
        if cfg!(miri) && (a * b * c == 0 || (a, b, c) == (1, 1, 1)) { continue; }
        shapes.push(vec![a, b, c]); } } }
    for shape in shapes {
        let n: usize = shape.iter().product();
        let t = Tensor::<i32>::from_data(shape.as_slice(), (0..n as i32).collect::<Vec<_>>());
        let m = Model { shape: shape.clone(), data: (0..n as i32).collect() };
        let nd = shape.len();
        let desc = format!("shape={shape:?}");
        check_source(t.view(), &m, &desc, &mut cx);
        for p in perms(nd).into_iter().skip(1) {
            if cfg!(miri) && p != (0..nd).rev().collect::<Vec<_>>() { continue; }
            check_source(t.permuted(&p), &m.permuted(&p), &format!("{desc} permuted={p:?}"), &mut cx);
        }
        for axis in 0..nd {
            let sz = shape[axis];
            let mut items: Vec<SliceItem> = (0..nd).map(|_| SliceItem::full_range()).collect();
            items[axis] = SliceItem::range(0, None, 2);
            if let Ok(v) = t.view().try_slice_dyn(items.as_slice()) {
                check_source(v, &m.slice_axis(axis, 0, sz, 2), &format!("{desc} step2 axis={axis}"), &mut cx);
            }
            if sz > 0 {
                items[axis] = SliceItem::range(1, None, 1);
                if let Ok(v) = t.view().try_slice_dyn(items.as_slice()) {
                    check_source(v, &m.slice_axis(axis, 1, sz, 1), &format!("{desc} from1 axis={axis}"), &mut cx);
                }
            }
        }
        // append along every axis into spare capacity
        for axis in 0..nd {
            if n == 0 { continue; }
            let mut data = Vec::with_capacity(2 * n + 4);
            data.extend(0..n as i32);
            let mut owned = Tensor::<i32>::from_data(shape.as_slice(), data);
            let other = Tensor::<i32>::from_data(shape.as_slice(), (100..100 + n as i32).collect::<Vec<_>>());
            let om = Model { shape: shape.clone(), data: (100..100 + n as i32).collect() };
            match owned.append(axis, &other) {
                Ok(()) => {
                    let mut want_shape = shape.clone();
                    want_shape[axis] *= 2;
                    let sz = shape[axis];
                    let (m1, m2) = (m.clone(), om.clone());
                    let want = Model { shape: want_shape.clone(), data: indices(&want_shape).iter().map(|idx| {
                        let mut src = idx.clone();
                        if idx[axis] < sz { m1.at(&src) } else { src[axis] -= sz; m2.at(&src) }
                    }).collect() };
                    cx.expect(&owned.view(), &want, "append", &format!("{desc} axis={axis}"));
                }
                Err(_) => {}   // an error is allowed; silent corruption is not
            }
        }
    }
    // larger sources that reach the blocked transpose in copy.rs (inner stride a multiple of 16, >= 32)
    for (shape, perm) in [(vec![32usize, 33], vec![1usize, 0]), (vec![3, 48, 32], vec![0, 2, 1]), (vec![64, 16], vec![1, 0]), (vec![2, 2, 35, 32], vec![0, 1, 3, 2])] {
        if cfg!(miri) && shape.len() != 2 { continue; }
        let n: usize = shape.iter().product();
        let t = Tensor::<i32>::from_data(shape.as_slice(), (0..n as i32).collect::<Vec<_>>());
        let m = Model { shape: shape.clone(), data: (0..n as i32).collect() };
        let v = t.permuted(&perm);
        let pm = m.permuted(&perm);
        cx.cases += 1;
        if v.to_vec() != pm.data { cx.fail("to_vec (blocked copy)", &format!("shape={shape:?} permuted={perm:?}")); }
        if v.to_tensor().to_vec() != pm.data { cx.fail("to_tensor (blocked copy)", &format!("shape={shape:?} permuted={perm:?}")); }
    }
    // blocked-copy sources that are NOT plain transposes: a stepped slice followed by a permutation,
    // so that the inner stride is a multiple of 16 (>= 32) while the other stride of the tile is > 1
    // (row-major and column-major), with at least one full 4x4 tile. Oracle: the view indexed
    // element by element.
    for (shape, axis, step, perm) in [(vec![8usize, 64], 1usize, 2isize, vec![1usize, 0]), (vec![6, 96], 1, 3, vec![1, 0]),
                                      (vec![2, 8, 64], 2, 2, vec![0, 2, 1]), (vec![16, 64], 0, 2, vec![0, 1]), (vec![64, 8], 0, 4, vec![1, 0])] {
        if cfg!(miri) && shape.len() != 2 { continue; }
        let n: usize = shape.iter().product();
        let t = Tensor::<i32>::from_data(shape.as_slice(), (0..n as i32).collect::<Vec<_>>());
        let mut items: Vec<SliceItem> = (0..shape.len()).map(|_| SliceItem::full_range()).collect();
        items[axis] = SliceItem::range(0, None, step);
        let Ok(sv) = t.view().try_slice_dyn(items.as_slice()) else { continue };
        for v in [sv.permuted(&perm), sv.clone()] {
            let want = view_model(&v);
            cx.cases += 1;
            let desc = format!("shape={shape:?} axis {axis} step {step} view shape={:?} strides={:?}", v.shape(), v.strides());
            if v.to_vec() != want.data { cx.fail("to_vec (blocked copy, strided tile)", &desc); }
            if v.to_tensor().to_vec() != want.data { cx.fail("to_tensor (blocked copy, strided tile)", &desc); }
            if v.to_contiguous().to_vec() != want.data { cx.fail("to_contiguous (blocked copy, strided tile)", &desc); }
        }
    }
    println!("searched {} (source, operation, argument) combinations", cx.cases);
    assert!(cx.found == 0, "{} checks failed", cx.found);
}
