// Bounded stand-in for the contour half of C36 (backend `native`): the REAL `find_contours` on
// EVERY binary mask of the sizes 1x1 .. 3x4 and 4x4 (all 2^(rows*cols) masks), in both retrieval
// modes. Checked, per the property statement:
//  (a) every traced contour point lies in the image, is a foreground pixel and is adjacent
//      (8-neighbourhood) to a background pixel or to the image edge;
//  (b) every foreground connected component (8-connectivity) has an outer contour: some contour
//      has a point in it; and no contour visits two components.
use rten_imageproc::{find_contours, RetrievalMode};
use rten_tensor::prelude::*;
use rten_tensor::NdTensor;

fn components(cells: &[Vec<bool>], rows: usize, cols: usize) -> Vec<Vec<usize>> {
    let mut lab = vec![vec![usize::MAX; cols]; rows];
    let mut next = 0;
    for y in 0..rows {
        for x in 0..cols {
            if !cells[y][x] || lab[y][x] != usize::MAX { continue; }
            let mut stack = vec![(y, x)];
            lab[y][x] = next;
            while let Some((cy, cx)) = stack.pop() {
                for dy in -1i32..=1 {
                    for dx in -1i32..=1 {
                        let (ny, nx) = (cy as i32 + dy, cx as i32 + dx);
                        if ny < 0 || nx < 0 || ny >= rows as i32 || nx >= cols as i32 { continue; }
                        let (ny, nx) = (ny as usize, nx as usize);
                        if cells[ny][nx] && lab[ny][nx] == usize::MAX { lab[ny][nx] = next; stack.push((ny, nx)); }
                    }
                }
            }
            next += 1;
        }
    }
    lab
}

fn check(rows: usize, cols: usize, bits: u32, mode: RetrievalMode, mode_name: &str) -> Option<String> {
    let cells: Vec<Vec<bool>> = (0..rows).map(|y| (0..cols).map(|x| bits >> (y * cols + x) & 1 == 1).collect()).collect();
    let mut mask = NdTensor::<bool, 2>::zeros([rows, cols]);
    for y in 0..rows { for x in 0..cols { mask[[y, x]] = cells[y][x]; } }
    let polys = find_contours(mask.view(), mode);
    let lab = components(&cells, rows, cols);
    let n_comp = lab.iter().flatten().filter(|l| **l != usize::MAX).max().map(|m| m + 1).unwrap_or(0);
    let mut has = vec![false; n_comp];
    let fg = |y: i32, x: i32| y >= 0 && x >= 0 && (y as usize) < rows && (x as usize) < cols && cells[y as usize][x as usize];
    for poly in polys.iter() {
        let mut poly_label = None;
        for p in poly {
            if !(p.y >= 0 && p.x >= 0 && (p.y as usize) < rows && (p.x as usize) < cols) { return Some(format!("{mode_name}: point ({},{}) outside the image", p.y, p.x)); }
            if !fg(p.y, p.x) { return Some(format!("{mode_name}: point ({},{}) is not a foreground pixel", p.y, p.x)); }
            let mut border = false;
            for dy in -1..=1 { for dx in -1..=1 { if (dy != 0 || dx != 0) && !fg(p.y + dy, p.x + dx) { border = true; } } }
            if !border { return Some(format!("{mode_name}: point ({},{}) is interior", p.y, p.x)); }
            let l = lab[p.y as usize][p.x as usize];
            match poly_label { None => poly_label = Some(l), Some(pl) if pl != l => return Some(format!("{mode_name}: one contour visits two components")), _ => {} }
            has[l] = true;
        }
    }
    if let Some(c) = has.iter().position(|h| !*h) { return Some(format!("{mode_name}: component {c} has no contour")); }
    None
}

#[test]
fn enumerate() {
    let mut found = 0usize;
    let mut cases = 0usize;
    let mut sizes: Vec<(usize, usize)> = Vec::new();
    for r in 1..=3 { for c in 1..=4 { sizes.push((r, c)); } }
    sizes.push((4, 3));
    sizes.push((4, 4));
    for (rows, cols) in sizes {
        for bits in 0..(1u32 << (rows * cols)) {
            for (mode, name) in [(RetrievalMode::External, "External"), (RetrievalMode::List, "List")] {
                cases += 1;
                if let Some(p) = check(rows, cols, bits, mode, name) {
                    if found < 10 { println!("FOUND kind=contours size={rows}x{cols} mask={bits:#b} problem={p}"); found += 1; }
                }
            }
        }
    }
    println!("searched {cases} (mask, mode) combinations");
    assert!(found == 0);
}
