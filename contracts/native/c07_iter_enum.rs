// Bounded stand-in for the iterator types of C07 that sit above OffsetsBase (backend `native`):
// the REAL element / lane / inner-view / axis / axis-chunk iterators of rten-tensor, through the
// public API, on every view of a small family:
//   base tensors of rank 1..=3 with sizes in 0..=3 holding distinct values; views: the tensor
//   itself, every axis permutation, every single-axis slice with step 2 and with step -1, a
//   slice [1..] of every axis, and a broadcast of every size-1 axis to 3.
// The reference is the list of elements obtained by *indexing* the view in row-major order.
// Checked, per the property statement: every iterator yields exactly the logical elements (or
// sub-views) once, in row-major order from the front and in reverse from the back, for every
// split of the consumption between next / next_back / nth; reports exact remaining lengths;
// `fold` and `split_at` (the parallel scheduler's primitive) agree; `iter_mut` hands out
// pairwise distinct element addresses.
use rten_base::iter::SplitIterator;
use rten_tensor::prelude::*;
use rten_tensor::{SliceItem, Tensor, TensorView};

fn indices(shape: &[usize]) -> Vec<Vec<usize>> {
    let mut out = vec![vec![]];
    for &s in shape {
        let mut next = Vec::new();
        for idx in &out { for i in 0..s { let mut v = idx.clone(); v.push(i); next.push(v); } }
        out = next;
    }
    out
}

fn elements(v: &TensorView<i32>) -> Vec<i32> {
    indices(v.shape()).iter().map(|idx| *v.get(idx.as_slice()).expect("in-bounds index")).collect()
}

fn report(found: &mut usize, what: &str, desc: &str) {
    if *found < 10 { println!("FOUND kind=iter {what} view={desc}"); }
    *found += 1;
}

fn check_view(v: TensorView<i32>, desc: &str, found: &mut usize, cases: &mut usize) {
    let e = elements(&v);
    let n = e.len();
    *cases += 1;
    // ---- element iterator
    if v.iter().copied().collect::<Vec<_>>() != e { report(found, "iter() order", desc); }
    if v.iter().len() != n { report(found, "iter().len()", desc); }
    if v.iter().rev().copied().collect::<Vec<_>>() != e.iter().rev().copied().collect::<Vec<_>>() { report(found, "iter().rev()", desc); }
    for a in 0..=n.min(if cfg!(miri) { 2 } else { 4 }) {
        for b in 0..=(n - a).min(if cfg!(miri) { 1 } else { 3 }) {
            let mut it = v.iter();
            let mut front = Vec::new();
            let mut back = Vec::new();
            // interleave: one from the front, one from the back, ...
            let (mut fa, mut fb) = (0, 0);
            while fa < a || fb < b {
                if fa < a { front.push(*it.next().unwrap()); fa += 1; }
                if fb < b { back.push(*it.next_back().unwrap()); fb += 1; }
            }
            if it.len() != n - a - b { report(found, "len after next/next_back", desc); }
            let mid: Vec<i32> = it.clone().copied().collect();
            let mut all = front.clone();
            all.extend(mid.iter().copied());
            all.extend(back.iter().rev().copied());
            if all != e { report(found, "next/next_back interleaving", desc); }
            // nth on the remainder
            for k in 0..=(n - a - b).min(3) {
                let mut it2 = it.clone();
                let got = it2.nth(k).copied();
                let want = e[a..n - b].get(k).copied();
                if got != want { report(found, "nth", desc); }
                let rest: Vec<i32> = it2.copied().collect();
                let want_rest: Vec<i32> = if k < n - a - b { e[a + k + 1..n - b].to_vec() } else { vec![] };
                if rest != want_rest { report(found, "elements after nth", desc); }
            }
            // fold on the remainder
            let folded = it.clone().fold(Vec::new(), |mut acc, x| { acc.push(*x); acc });
            if folded != e[a..n - b] { report(found, "fold", desc); }
            // split_at on the remainder
            for p in 0..=(n - a - b) {
                let (l, r) = it.clone().split_at(p);
                let (l, r): (Vec<i32>, Vec<i32>) = (l.copied().collect(), r.copied().collect());
                if l != e[a..a + p] || r != e[a + p..n - b] { report(found, "split_at", desc); }
            }
        }
    }
    // ---- lanes
    for dim in 0..v.ndim() {
        let mut other: Vec<usize> = v.shape().to_vec();
        let lane_len = other[dim];
        other[dim] = 1;
        let want: Vec<Vec<i32>> = indices(&other).iter().map(|idx| {
            (0..lane_len).map(|i| { let mut ix = idx.clone(); ix[dim] = i; *v.get(ix.as_slice()).unwrap() }).collect()
        }).collect();
        let want: Vec<Vec<i32>> = if v.shape().iter().enumerate().any(|(d, s)| d != dim && *s == 0) { vec![] } else { want };
        let got: Vec<Vec<i32>> = v.lanes(dim).map(|l| l.copied().collect()).collect();
        // how many (empty) lanes an EMPTY tensor has is a convention, not part of the property
        // ("each logical element exactly once"): only the yielded elements are compared there
        let want: Vec<Vec<i32>> = if n == 0 { got.iter().map(|_| Vec::new()).collect() } else { want };
        if got != want { report(found, "lanes()", desc); }
        if v.lanes(dim).len() != want.len() { report(found, "lanes().len()", desc); }
        let got_rev: Vec<Vec<i32>> = v.lanes(dim).rev().map(|l| l.copied().collect()).collect();
        if got_rev != want.iter().rev().cloned().collect::<Vec<_>>() { report(found, "lanes().rev()", desc); }
        let got_lane_rev: Vec<Vec<i32>> = v.lanes(dim).map(|l| l.rev().copied().collect()).collect();
        if got_lane_rev != want.iter().map(|l| l.iter().rev().copied().collect()).collect::<Vec<Vec<i32>>>() { report(found, "lane.rev()", desc); }
        // ---- axis_iter / axis_chunks
        let want_axis: Vec<Vec<i32>> = (0..v.size(dim)).map(|i| elements(&v.index_axis(dim, i).as_dyn())).collect();
        let got_axis: Vec<Vec<i32>> = v.axis_iter(dim).map(|s| elements(&s.as_dyn())).collect();
        if got_axis != want_axis { report(found, "axis_iter()", desc); }
        if v.axis_iter(dim).len() != v.size(dim) { report(found, "axis_iter().len()", desc); }
        let got_axis_rev: Vec<Vec<i32>> = v.axis_iter(dim).rev().map(|s| elements(&s.as_dyn())).collect();
        if got_axis_rev != want_axis.iter().rev().cloned().collect::<Vec<_>>() { report(found, "axis_iter().rev()", desc); }
        for p in 0..=v.size(dim) {
            let (l, r) = v.axis_iter(dim).split_at(p);
            let l: Vec<Vec<i32>> = l.map(|s| elements(&s.as_dyn())).collect();
            let r: Vec<Vec<i32>> = r.map(|s| elements(&s.as_dyn())).collect();
            if l != want_axis[..p] || r != want_axis[p..] { report(found, "axis_iter().split_at", desc); }
        }
        for chunk in 1..=3usize {
            let got: Vec<Vec<i32>> = v.axis_chunks(dim, chunk).map(|c| elements(&c.as_dyn())).collect();
            let mut want = Vec::new();
            let mut start = 0;
            while start < v.size(dim) {
                let end = (start + chunk).min(v.size(dim));
                want.push(elements(&v.slice_axis(dim, start..end).as_dyn()));
                start = end;
            }
            if got != want { report(found, "axis_chunks()", desc); }
            if v.axis_chunks(dim, chunk).len() != want.len() { report(found, "axis_chunks().len()", desc); }
        }
    }
    // ---- inner_iter (last k dims as sub-views)
    for k in 1..=v.ndim().min(2) {
        let outer: Vec<usize> = v.shape()[..v.ndim() - k].to_vec();
        let want: Vec<Vec<i32>> = indices(&outer).iter().map(|idx| {
            let mut s = v.clone();
            for i in idx { s = s.index_axis(0, *i); }
            elements(&s)
        }).collect();
        let got: Vec<Vec<i32>> = v.inner_iter_dyn(k).map(|s| elements(&s)).collect();
        if got != want { report(found, "inner_iter_dyn()", desc); }
        if v.inner_iter_dyn(k).len() != want.len() { report(found, "inner_iter_dyn().len()", desc); }
        let got_rev: Vec<Vec<i32>> = v.inner_iter_dyn(k).rev().map(|s| elements(&s)).collect();
        if got_rev != want.iter().rev().cloned().collect::<Vec<_>>() { report(found, "inner_iter_dyn().rev()", desc); }
    }
}

fn check_mut(t: &mut Tensor<i32>, desc: &str, found: &mut usize) {
    // iter_mut on permuted / sliced mutable views: pairwise distinct addresses, exact count,
    // and writes land where indexing reads
    let ndim = t.ndim();
    let perms: Vec<Vec<usize>> = match ndim { 1 => vec![vec![0]], 2 => vec![vec![0, 1], vec![1, 0]],
        _ => vec![vec![0, 1, 2], vec![0, 2, 1], vec![1, 0, 2], vec![1, 2, 0], vec![2, 0, 1], vec![2, 1, 0]] };
    for perm in perms {
        let mut vm = t.view_mut();
        vm.permute(&perm);
        let n = vm.len();
        let ptrs: Vec<*mut i32> = vm.iter_mut().map(|x| x as *mut i32).collect();
        if ptrs.len() != n { report(found, "iter_mut() count", desc); }
        let mut sorted = ptrs.clone();
        sorted.sort();
        sorted.dedup();
        if sorted.len() != ptrs.len() { report(found, "iter_mut() yields an element twice", desc); }
        // from both ends
        let mut it = vm.iter_mut();
        let mut both: Vec<*mut i32> = Vec::new();
        loop {
            match it.next() { Some(x) => both.push(x as *mut i32), None => break }
            match it.next_back() { Some(x) => both.push(x as *mut i32), None => break }
        }
        let mut s2 = both.clone();
        s2.sort();
        s2.dedup();
        if s2.len() != both.len() || both.len() != n { report(found, "iter_mut() next/next_back yields an element twice", desc); }
        for (i, x) in vm.iter_mut().enumerate() { *x = 1000 + i as i32; }
        let after = elements(&vm.view());
        if after != (0..n as i32).map(|i| 1000 + i).collect::<Vec<_>>() { report(found, "iter_mut() writes do not land in row-major order", desc); }
    }
}

#[test]
fn enumerate() {
    let mut found = 0usize;
    let mut cases = 0usize;
    let mut shapes: Vec<Vec<usize>> = Vec::new();
    // under Miri (unit U-iter-miri: undefined-behaviour check of the same code) the domain is smaller
    let max = if cfg!(miri) { 2 } else { 3 };
    for a in 0..=max { shapes.push(vec![a]); for b in 0..=max { shapes.push(vec![a, b]); for c in 0..=max { if cfg!(miri) && a * b * c == 0 && a + b + c > 2 { continue; } shapes.push(vec![a, b, c]); } } }
    for shape in shapes {
        let n: usize = shape.iter().product();
        let mut t = Tensor::<i32>::from_data(shape.as_slice(), (0..n as i32).collect::<Vec<_>>());
        let ndim = shape.len();
        let desc = format!("shape={shape:?}");
        check_view(t.view(), &desc, &mut found, &mut cases);
        let perms: Vec<Vec<usize>> = match ndim { 1 => vec![], 2 => vec![vec![1, 0]],
            _ => vec![vec![0, 2, 1], vec![1, 0, 2], vec![1, 2, 0], vec![2, 0, 1], vec![2, 1, 0]] };
        for perm in &perms {
            check_view(t.permuted(perm), &format!("{desc} permuted={perm:?}"), &mut found, &mut cases);
        }
        for axis in 0..ndim {
            for (name, item) in [("step2", SliceItem::range(0, None, 2)), ("rev", SliceItem::range(-1, None, -1)), ("from1", SliceItem::range(1, None, 1))] {
                if name == "from1" && shape[axis] == 0 { continue; }
                let mut items: Vec<SliceItem> = (0..ndim).map(|_| SliceItem::full_range()).collect();
                items[axis] = item;
                let Ok(v) = t.view().try_slice_dyn(items.as_slice()) else { continue };
                check_view(v.clone(), &format!("{desc} slice axis={axis} {name}"), &mut found, &mut cases);
                for perm in &perms {
                    check_view(v.permuted(perm), &format!("{desc} slice axis={axis} {name} permuted={perm:?}"), &mut found, &mut cases);
                }
            }
            if shape[axis] == 1 {
                let mut target = shape.clone();
                target[axis] = 3;
                check_view(t.broadcast(target.as_slice()), &format!("{desc} broadcast axis={axis}"), &mut found, &mut cases);
            }
        }
        check_mut(&mut t, &desc, &mut found);
    }
    // rank 4: views whose four axes cannot be merged (every axis sliced out of a larger tensor), so
    // that OffsetsBase has two *outer* positions: carries between outer dims, nth / skip / split
    // across them, reverse iteration after a partial front consumption.
    let r4max = if cfg!(miri) { 2 } else { 3 };
    for a in 1..=r4max { for b in 1..=r4max { for c in 1..=r4max { for d in 1..=r4max {
        if cfg!(miri) && a + b + c + d < 8 { continue; }
        let shape = [a, b, c, d];
        let big: Vec<usize> = shape.iter().map(|s| s + 1).collect();
        let n: usize = big.iter().product();
        let t = Tensor::<i32>::from_data(big.as_slice(), (0..n as i32).collect::<Vec<_>>());
        let items: Vec<SliceItem> = shape.iter().map(|&s| SliceItem::range(0, Some(s as isize), 1)).collect();
        let Ok(v) = t.view().try_slice_dyn(items.as_slice()) else { continue };
        let desc = format!("rank4 shape={shape:?} sliced out of {big:?}");
        check_view(v.clone(), &desc, &mut found, &mut cases);
        for perm in [vec![3usize, 2, 1, 0], vec![1, 0, 3, 2], vec![0, 2, 1, 3]] {
            check_view(v.permuted(perm.as_slice()), &format!("{desc} permuted={perm:?}"), &mut found, &mut cases);
        }
    } } } }
    println!("searched {cases} views");
    assert!(found == 0, "{found} checks failed");
}
