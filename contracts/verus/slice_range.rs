// Unit U-slice-arith: SliceRange / IndexRange / IndexRangeIter arithmetic from
// rten-tensor/src/slice_range.rs (verbatim bodies) against Python/NumPy slice semantics
// written over the mathematical integers.
use vstd::prelude::*;
use std::ops::Range;

verus! {

//@extract kind=struct file=rten-tensor/src/slice_range.rs name=SliceRange

//@extract kind=struct file=rten-tensor/src/slice_range.rs name=IndexRange

//@extract kind=struct file=rten-tensor/src/slice_range.rs name=IndexRangeIter

// ---------------------------------------------------------------- trusted std specifications
pub assume_specification [isize::unsigned_abs] (x: isize) -> (r: usize)
    ensures r as int == (if x >= 0 { x as int } else { -(x as int) });

pub assume_specification [usize::div_ceil] (a: usize, b: usize) -> (r: usize)
    requires b != 0
    ensures r as int == (a as int + b as int - 1) / (b as int);

// ---------------------------------------------------------------- reference semantics
pub open spec fn clampi(x: int, lo: int, hi: int) -> int {
    if x < lo { lo } else if x > hi { hi } else { x }
}

/// NumPy index normalisation: negative indices count from the end.
pub open spec fn norm(i: int, n: int) -> int { if i >= 0 { i } else { n + i } }

/// First index visited by `start:end:step` on a dimension of size n (Python slice.indices).
pub open spec fn py_start(start: int, step: int, n: int) -> int {
    if step > 0 { clampi(norm(start, n), 0, n) } else { clampi(norm(start, n), -1, n - 1) }
}

/// Exclusive end index (may be -1 when stepping backwards).
pub open spec fn py_end(end: Option<isize>, step: int, n: int) -> int {
    match end {
        None => if step > 0 { n } else { -1 },
        Some(e) => if step > 0 { clampi(norm(e as int, n), 0, n) } else { clampi(norm(e as int, n), -1, n - 1) },
    }
}

/// Number of indices in {s, s+step, s+2 step, ...} strictly before e (in the direction of step).
pub open spec fn count_steps(s: int, e: int, step: int) -> int
    recommends step != 0
{
    if step > 0 {
        if e > s { (e - s + step - 1) / step } else { 0 }
    } else {
        if s > e { (s - e + (-step) - 1) / (-step) } else { 0 }
    }
}

spec fn py_count(r: SliceRange, n: int) -> int {
    count_steps(py_start(r.start as int, r.step as int, n), py_end(r.end, r.step as int, n), r.step as int)
}

pub proof fn lemma_div_pos(a: int, d: int)
    requires a >= 0, d > 0
    ensures 0 <= a / d <= a, (a / d) * d <= a < (a / d) * d + d
{
    assert(0 <= a / d <= a) by (nonlinear_arith) requires a >= 0, d > 0;
    assert((a / d) * d <= a < (a / d) * d + d) by (nonlinear_arith) requires a >= 0, d > 0;
}

/// (x + d) / d == x / d + 1 and small quotients, triggered on the quotient the code computes.
pub broadcast proof fn lemma_div_step(x: int, d: int)
    requires x >= 0, d >= 1
    ensures
        (x + d) / d == #[trigger] (x / d) + 1,
        x < d ==> x / d == 0,
        x / d >= 0,
{
    assert((x + d) / d == x / d + 1) by (nonlinear_arith) requires x >= 0, d >= 1;
    assert(x < d ==> x / d == 0) by (nonlinear_arith) requires x >= 0, d >= 1;
    assert(x / d >= 0) by (nonlinear_arith) requires x >= 0, d >= 1;
}

// ---------------------------------------------------------------- code under contract
pub mod code {
use super::*;
broadcast use lemma_div_step;

impl SliceRange {
    spec fn wf(&self) -> bool { self.step != 0 }

    //@extract kind=fn file=rten-tensor/src/slice_range.rs within="impl SliceRange" name=new
    //@| requires step != 0   // documented: panics if step == 0
    //@| ensures r.start == start, r.end == end, r.step == step, r.wf(),

    //@extract kind=fn file=rten-tensor/src/slice_range.rs within="impl SliceRange" name=offset_from_start
    //@| requires dim_size <= isize::MAX
    //@| ensures r as int == norm(index as int, dim_size as int),

    //@extract kind=fn file=rten-tensor/src/slice_range.rs within="impl SliceRange" name=offset_from_end
    //@| requires dim_size <= isize::MAX, index > isize::MIN
    //@| ensures r as int == dim_size as int - 1 - norm(index as int, dim_size as int),

    //@extract kind=fn file=rten-tensor/src/slice_range.rs within="impl SliceRange" name=step
    //@| ensures r == self.step,

    //@extract kind=fn file=rten-tensor/src/slice_range.rs within="impl SliceRange" name=clamp
    //@| requires self.wf(), dim_size <= isize::MAX
    //@| ensures
    //@|     r.step == self.step,
    //@|     self.step > 0 ==> r.start as int == clampi(self.start as int, -(dim_size as int), dim_size as int),
    //@|     self.step < 0 ==> r.start as int == clampi(self.start as int, -(dim_size as int) - 1, dim_size as int - 1),
    //@|     self.end is None <==> r.end is None,
    //@|     self.step > 0 && self.end is Some ==> r.end.unwrap() as int == clampi(self.end.unwrap() as int, -(dim_size as int), dim_size as int),
    //@|     self.step < 0 && self.end is Some ==> r.end.unwrap() as int == clampi(self.end.unwrap() as int, -(dim_size as int) - 1, dim_size as int - 1),
    //@closure 0 e: isize -> o: isize
    //@| requires min_idx <= max_idx
    //@| ensures o as int == clampi(e as int, min_idx as int, max_idx as int)

    //@extract kind=fn file=rten-tensor/src/slice_range.rs within="impl SliceRange" name=steps
    //@| requires self.wf(), dim_size <= isize::MAX, self.step > isize::MIN
    //@| ensures r as int == py_count(*self, dim_size as int), // @ob:steps.python_count
    //@closure 0 index: isize -> o: isize
    //@| requires dim_size <= isize::MAX
    //@| ensures o as int == norm(index as int, dim_size as int)

    //@extract kind=fn file=rten-tensor/src/slice_range.rs within="impl SliceRange" name=resolve
    //@| requires self.wf(), dim_size <= isize::MAX,
    //@|     self.start > isize::MIN, self.end is Some ==> self.end.unwrap() > isize::MIN,
    //@| ensures
    //@|     // forwards: offsets from the first index; backwards: offsets from the last index
    //@|     ({
    //@|         let n = dim_size as int;
    //@|         let s = if self.step > 0 { norm(self.start as int, n) } else { n - 1 - norm(self.start as int, n) };
    //@|         let e = match self.end { None => n, Some(e) => if self.step > 0 { norm(e as int, n) } else { n - 1 - norm(e as int, n) } };
    //@|         &&& (r is Some <==> (0 <= s <= n && 0 <= e <= n))   // @ob:resolve.none_iff_out_of_bounds
    //@|         &&& (r is Some ==> r.unwrap().start as int == s && r.unwrap().end as int == (if e >= s { e } else { s }))
    //@|     }),
    //@closure 0 end: isize -> o: isize
    //@| requires dim_size <= isize::MAX
    //@| ensures o as int == norm(end as int, dim_size as int)
    //@closure 1 end: isize -> o: isize
    //@| requires dim_size <= isize::MAX, end > isize::MIN
    //@| ensures o as int == dim_size as int - 1 - norm(end as int, dim_size as int)

    //@extract kind=fn file=rten-tensor/src/slice_range.rs within="impl SliceRange" name=resolve_clamped
    //@| requires self.wf(), dim_size < isize::MAX
    //@| ensures
    //@|     ({
    //@|         let n = dim_size as int;
    //@|         let ps = py_start(self.start as int, self.step as int, n);
    //@|         let pe = py_end(self.end, self.step as int, n);
    //@|         &&& (self.step > 0 ==> r.start as int == ps && r.end as int == (if pe >= ps { pe } else { ps }))
    //@|         &&& (self.step < 0 ==> r.start as int == n - 1 - ps && r.end as int == (if pe <= ps { n - 1 - pe } else { n - 1 - ps }))
    //@|     }), // @ob:resolve_clamped.python_endpoints

    //@extract kind=fn file=rten-tensor/src/slice_range.rs within="impl SliceRange" name=index_range
    //@| requires self.wf(), dim_size < isize::MAX
    //@| ensures
    //@|     r.step == self.step,
    //@|     r.steps_spec() == py_count(*self, dim_size as int), // @ob:index_range.python_count
    //@|     py_count(*self, dim_size as int) > 0 ==> r.start as int == py_start(self.start as int, self.step as int, dim_size as int), // @ob:index_range.python_start
    //@|     r.start <= isize::MAX, r.end >= -1, r.step != 0,
}

impl IndexRange {
    spec fn steps_spec(&self) -> int { count_steps(self.start as int, self.end as int, self.step as int) }
    //@extract kind=fn file=rten-tensor/src/slice_range.rs within="impl IndexRange" name=new
    //@| requires step != 0, start <= isize::MAX
    //@| ensures r.start == start, r.step == step, r.end as int == (if end >= -1 { end as int } else { -1 }),

    //@extract kind=fn file=rten-tensor/src/slice_range.rs within="impl IndexRange" name=steps
    //@| requires self.step != 0, self.start <= isize::MAX, self.end >= -1
    //@| ensures r as int == count_steps(self.start as int, self.end as int, self.step as int), // @ob:IndexRange.steps.count
}

impl IndexRangeIter {
    /// remaining indices are index, index+step, ... ; all lie in [0, isize::MAX]
    spec fn wf(&self) -> bool {
        &&& self.step != 0
        &&& self.remaining > 0 ==> 0 <= self.index
        &&& self.remaining > 0 ==> 0 <= self.index + (self.remaining as int - 1) * (self.step as int) <= isize::MAX
    }

    //@extract kind=fn file=rten-tensor/src/slice_range.rs within="impl Iterator for IndexRangeIter" name=next
    //@| requires old(self).wf(), old(self).index + (old(self).step as int) >= isize::MIN, old(self).index + (old(self).step as int) <= isize::MAX
    //@| ensures
    //@|     old(self).remaining == 0 ==> r is None && *final(self) == *old(self),
    //@|     old(self).remaining > 0 ==> r == Some(old(self).index as usize)
    //@|         && final(self).index == old(self).index + old(self).step
    //@|         && final(self).remaining == old(self).remaining - 1 && final(self).step == old(self).step, // @ob:IndexRangeIter.next.arith
}

} // mod code
} // verus!
fn main() {}
