// Unit U-rangechunks-v: RangeChunks / RangeChunksExact (rten-base/src/iter/range.rs), the index
// arithmetic behind chunked and parallel iteration (`split_at` is what a parallel scheduler
// calls). Verbatim bodies, every range and chunk size.
use vstd::prelude::*;
use std::ops::Range;

verus! {

//@extract kind=struct file=rten-base/src/iter/range.rs name=RangeChunks

//@extract kind=struct file=rten-base/src/iter/range.rs name=RangeChunksExact

// ---------------------------------------------------------------- trusted std specifications
pub open spec fn rlen(r: Range<usize>) -> int { if r.start <= r.end { r.end - r.start } else { 0 } }

/// `Range::is_empty` is generic over the index type, so its assumed specification goes through an
/// uninterpreted relation that is axiomatised for usize.
pub uninterp spec fn range_empty<Idx>(r: Range<Idx>) -> bool;

pub assume_specification<Idx> [std::ops::Range::<Idx>::is_empty] (r: &std::ops::Range<Idx>) -> (b: bool)
    where Idx: std::cmp::PartialOrd + std::cmp::PartialOrd,
    ensures b == range_empty(*r);

#[verifier::external_body]
pub broadcast proof fn axiom_range_empty_usize(r: Range<usize>)
    ensures #[trigger] range_empty(r) == !(r.start < r.end)
{}

pub open spec fn ceil_div(a: int, b: int) -> int { if a % b == 0 { a / b } else { a / b + 1 } }

pub assume_specification [usize::div_ceil] (a: usize, b: usize) -> (r: usize)
    ensures b > 0 ==> r as int == ceil_div(a as int, b as int);

// ---------------------------------------------------------------- spec
/// Well-formedness of the iterator state (what `range_chunks` callers must provide): a forward
/// range, a positive chunk size, and `end + chunk_size` representable (true for every range of
/// slice indices: both are at most isize::MAX).
pub open spec fn wf(remainder: Range<usize>, chunk_size: usize) -> bool {
    remainder.start <= remainder.end && chunk_size >= 1 && remainder.end + chunk_size <= usize::MAX
}

pub open spec fn n_chunks(remainder: Range<usize>, chunk_size: usize) -> int {
    ceil_div(rlen(remainder), chunk_size as int)
}

pub proof fn lemma_ceil_div_step(a: int, b: int)
    requires a >= b, b >= 1
    ensures ceil_div(a, b) == ceil_div(a - b, b) + 1, ceil_div(a, b) >= 1
{
    vstd::arithmetic::div_mod::lemma_fundamental_div_mod(a, b);
    vstd::arithmetic::div_mod::lemma_fundamental_div_mod(a - b, b);
    vstd::arithmetic::div_mod::lemma_mod_bound(a, b);
    vstd::arithmetic::div_mod::lemma_mod_bound(a - b, b);
    let q = a / b; let r = a % b;
    assert(a - b == (q - 1) * b + r) by (nonlinear_arith) requires a == b * q + r;
    vstd::arithmetic::div_mod::lemma_fundamental_div_mod_converse(a - b, b, q - 1, r);
}

pub proof fn lemma_ceil_div_small(a: int, b: int)
    requires 0 <= a <= b, b >= 1
    ensures ceil_div(a, b) == (if a == 0 { 0int } else { 1int })
{
    if a == b {
        vstd::arithmetic::div_mod::lemma_fundamental_div_mod_converse(a, b, 1, 0);
    } else {
        vstd::arithmetic::div_mod::lemma_fundamental_div_mod_converse(a, b, 0, a);
    }
}

/// ceil(min(c * i, n) / c) == i for i <= ceil(n / c), and the rest has ceil(n / c) - i chunks.
pub proof fn lemma_split(n: int, c: int, i: int)
    requires n >= 0, c >= 1, 0 <= i <= ceil_div(n, c)
    ensures
        ceil_div(if c * i <= n { c * i } else { n }, c) == i,
        ceil_div(n - (if c * i <= n { c * i } else { n }), c) == ceil_div(n, c) - i,
    decreases i
{
    if i == 0 {
        assert(c * 0 == 0);
        lemma_ceil_div_small(0, c);
    } else if n <= c {
        lemma_ceil_div_small(n, c);
        // i == 1, n >= 1
        assert(c * i >= n) by (nonlinear_arith) requires i >= 1, c >= n, c >= 1;
        if c * i <= n { assert(c * i == n); }
        lemma_ceil_div_small(0, c);
    } else {
        lemma_ceil_div_step(n, c);
        lemma_split(n - c, c, i - 1);
        assert(c * i == c * (i - 1) + c) by (nonlinear_arith);
        let m1 = if c * (i - 1) <= n - c { c * (i - 1) } else { n - c };
        let m = if c * i <= n { c * i } else { n };
        assert(m == m1 + c);
        lemma_ceil_div_step(m, c);
    }
}

pub proof fn lemma_ceil_div_bound(n: int, c: int)
    requires n >= 0, c >= 1
    ensures c * ceil_div(n, c) <= n + c - 1, ceil_div(n, c) >= 0
{
    vstd::arithmetic::div_mod::lemma_fundamental_div_mod(n, c);
    vstd::arithmetic::div_mod::lemma_mod_bound(n, c);
    let q = n / c;
    assert(q >= 0) by (nonlinear_arith) requires n == c * q + n % c, 0 <= n % c < c, n >= 0, c >= 1;
    assert(c * (q + 1) == c * q + c) by (nonlinear_arith);
}

/// Everything split_at needs about `chunk_size * index`, in one broadcast lemma.
pub broadcast proof fn lemma_split_b(n: int, c: int, i: int)
    requires n >= 0, c >= 1, 0 <= i <= ceil_div(n, c)
    ensures
        #![trigger ceil_div(n, c), c * i]
        0 <= c * i <= n + c - 1,
        ceil_div(if c * i <= n { c * i } else { n }, c) == i,
        ceil_div(n - (if c * i <= n { c * i } else { n }), c) == ceil_div(n, c) - i,
{
    lemma_split(n, c, i);
    lemma_ceil_div_bound(n, c);
    assert(0 <= c * i <= c * ceil_div(n, c)) by (nonlinear_arith) requires 0 <= i <= ceil_div(n, c), c >= 1;
}

pub mod code {
use super::*;
broadcast use {axiom_range_empty_usize, lemma_split_b};

// Trait impls cannot carry `requires`, so the Iterator / DoubleEndedIterator / SplitIterator
// methods are checked inside an inherent impl (bodies verbatim; `Self::Item` spelled out).
impl RangeChunks {
    pub closed spec fn rem(&self) -> Range<usize> { self.remainder }
    pub closed spec fn chunk(&self) -> usize { self.chunk_size }

    //@extract kind=fn file=rten-base/src/iter/range.rs within="impl Iterator for RangeChunks" name=next assoc="Item:Range<usize>"
    //@| requires wf(old(self).remainder, old(self).chunk_size)
    //@| ensures
    //@|     final(self).chunk_size == old(self).chunk_size, final(self).remainder.end == old(self).remainder.end,
    //@|     wf(final(self).remainder, final(self).chunk_size),
    //@|     rlen(old(self).remainder) == 0 ==> r is None && final(self).remainder == old(self).remainder,
    //@|     rlen(old(self).remainder) > 0 ==> (r matches Some(c)
    //@|         && c.start == old(self).remainder.start
    //@|         && c.end as int == (if rlen(old(self).remainder) <= old(self).chunk_size { old(self).remainder.end as int } else { c.start + old(self).chunk_size })
    //@|         && final(self).remainder.start == c.end), // @ob:next.front_chunk_exact

    //@extract kind=fn file=rten-base/src/iter/range.rs within="impl Iterator for RangeChunks" name=size_hint
    //@| requires wf(self.remainder, self.chunk_size)
    //@| ensures r.0 as int == n_chunks(self.remainder, self.chunk_size), r.1 == Some(r.0), // @ob:size_hint.exact

    //@extract kind=fn file=rten-base/src/iter/range.rs within="impl DoubleEndedIterator for RangeChunks" name=next_back assoc="Item:Range<usize>"
    //@| requires wf(old(self).remainder, old(self).chunk_size)
    //@| ensures
    //@|     final(self).chunk_size == old(self).chunk_size, final(self).remainder.start == old(self).remainder.start,
    //@|     wf(final(self).remainder, final(self).chunk_size),
    //@|     rlen(old(self).remainder) == 0 ==> r is None && final(self).remainder == old(self).remainder,
    //@|     rlen(old(self).remainder) > 0 ==> (r matches Some(c)
    //@|         && c.end == old(self).remainder.end
    //@|         && c.start as int == (if rlen(old(self).remainder) <= old(self).chunk_size { old(self).remainder.start as int } else { c.end - old(self).chunk_size })
    //@|         && final(self).remainder.end == c.start), // @ob:next_back.back_chunk_exact

    /// `ExactSizeIterator::len` (provided method: returns `size_hint().0`, proved exact above).
    #[verifier::external_body]
    fn len(&self) -> (r: usize)
        requires wf(self.remainder, self.chunk_size)
        ensures r as int == n_chunks(self.remainder, self.chunk_size)
    { unimplemented!() }

    //@extract kind=fn file=rten-base/src/iter/range.rs within="impl SplitIterator for RangeChunks" name=split_at
    //@| requires wf(self.remainder, self.chunk_size), index as int <= n_chunks(self.remainder, self.chunk_size)   // documented: panics if index > len
    //@| ensures
    //@|     wf(r.0.remainder, r.0.chunk_size), wf(r.1.remainder, r.1.chunk_size),
    //@|     r.0.chunk_size == self.chunk_size, r.1.chunk_size == self.chunk_size,
    //@|     r.0.remainder.start == self.remainder.start, r.0.remainder.end == r.1.remainder.start, r.1.remainder.end == self.remainder.end,
    //@|     n_chunks(r.0.remainder, r.0.chunk_size) == index as int,
    //@|     n_chunks(r.1.remainder, r.1.chunk_size) == n_chunks(self.remainder, self.chunk_size) - index as int, // @ob:split_at.partitions_with_exact_lengths
    //@|     rlen(r.0.remainder) == (if self.chunk_size * index <= rlen(self.remainder) { self.chunk_size * index } else { rlen(self.remainder) }),
}

impl RangeChunksExact {
    //@extract kind=fn file=rten-base/src/iter/range.rs within="impl Iterator for RangeChunksExact" name=next assoc="Item:Range<usize>"
    //@| requires old(self).remainder.start <= old(self).remainder.end
    //@| ensures
    //@|     final(self).chunk_size == old(self).chunk_size, final(self).remainder.end == old(self).remainder.end,
    //@|     final(self).remainder.start <= final(self).remainder.end,
    //@|     rlen(old(self).remainder) < old(self).chunk_size ==> r is None && final(self).remainder == old(self).remainder,
    //@|     rlen(old(self).remainder) >= old(self).chunk_size ==> (r matches Some(c)
    //@|         && c.start == old(self).remainder.start && c.end == c.start + old(self).chunk_size
    //@|         && final(self).remainder.start == c.end), // @ob:exact_next.full_chunk_or_none

    //@extract kind=fn file=rten-base/src/iter/range.rs within="impl Iterator for RangeChunksExact" name=size_hint
    //@| requires self.remainder.start <= self.remainder.end, self.chunk_size >= 1
    //@| ensures r.0 as int == rlen(self.remainder) / (self.chunk_size as int), r.1 == Some(r.0), // @ob:exact_size_hint.exact
}

//@extract kind=fn file=rten-base/src/iter/range.rs name=range_chunks
//@| ensures r.remainder == range, r.chunk_size == chunk_size, // @ob:range_chunks.initial_state

//@extract kind=fn file=rten-base/src/iter/range.rs name=range_chunks_exact
//@| ensures r.remainder == range, r.chunk_size == chunk_size, // @ob:range_chunks_exact.initial_state

} // mod
} // verus!
fn main() {}
