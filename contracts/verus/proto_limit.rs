// Unit U-proto-v: LimitReader (rten-onnx/src/protobuf/value.rs), verbatim bodies.
// The ReadValue trait and ProtobufError are *declared* here (trusted environment): the trait
// carries a ghost position and the contract every implementor is assumed to meet.
use vstd::prelude::*;

verus! {

// ---------------------------------------------------------------- trusted environment
pub enum ErrorKind { Eof, Other }

pub struct ProtobufError { pub kind: ErrorKind }

impl ProtobufError {
    pub fn new(kind: ErrorKind) -> (r: ProtobufError) { ProtobufError { kind } }
}

pub trait FieldTypes {
    type String;
    type Bytes;
}

/// Contract assumed of the wrapped reader: `position` is a pure observation, a successful
/// read of n bytes advances the position by exactly n (over the integers, i.e. without
/// wrapping), a varint read advances by 1..=10.
pub trait ReadValue {
    type Types: FieldTypes;

    spec fn pos(&self) -> int;

    fn read_i32(&mut self) -> (r: Result<i32, ProtobufError>)
        ensures r is Ok ==> final(self).pos() == old(self).pos() + 4;

    fn read_i64(&mut self) -> (r: Result<i64, ProtobufError>)
        ensures r is Ok ==> final(self).pos() == old(self).pos() + 8;

    fn read_varint(&mut self) -> (r: Result<u64, ProtobufError>)
        ensures r is Ok ==> old(self).pos() + 1 <= final(self).pos() <= old(self).pos() + 10;

    fn read_bytes(&mut self, len: usize) -> (r: Result<<Self::Types as FieldTypes>::Bytes, ProtobufError>)
        ensures r is Ok ==> final(self).pos() == old(self).pos() + len;

    fn read_string(&mut self, len: usize) -> (r: Result<<Self::Types as FieldTypes>::String, ProtobufError>)
        ensures r is Ok ==> final(self).pos() == old(self).pos() + len;

    fn skip(&mut self, len: usize) -> (r: Result<(), ProtobufError>)
        ensures r is Ok ==> final(self).pos() == old(self).pos() + len;

    fn position(&self) -> (r: u64)
        ensures r as int == self.pos();
}

// ---------------------------------------------------------------- code under contract

//@extract kind=struct file=rten-onnx/src/protobuf/value.rs name=LimitReader

impl<'a, R: ReadValue> LimitReader<'a, R> {
    pub closed spec fn ipos(&self) -> int { self.inner.pos() }
    pub closed spec fn iend(&self) -> int { self.end as int }

    //@extract kind=fn file=rten-onnx/src/protobuf/value.rs within="impl<'a, R: ReadValue> LimitReader<'a, R>" name=new
    //@| ensures
    //@|     r.ipos() == old(inner).pos(),
    //@|     r.iend() == (if old(inner).pos() + len <= u64::MAX { old(inner).pos() + len } else { u64::MAX as int }), // @ob:new.end_exact

    //@extract kind=fn file=rten-onnx/src/protobuf/value.rs within="impl<'a, R: ReadValue> LimitReader<'a, R>" name=sub_limit
    //@| ensures
    //@|     r.ipos() == old(self).ipos(),
    //@|     r.iend() == (if old(self).ipos() + len <= u64::MAX { old(self).ipos() + len } else { u64::MAX as int }), // @ob:sub_limit.end_exact

    //@extract kind=fn file=rten-onnx/src/protobuf/value.rs within="impl<'a, R: ReadValue> LimitReader<'a, R>" name=check_has_bytes
    //@| ensures
    //@|     (r is Ok) <==> (self.ipos() + len <= self.iend()), // @ob:check_has_bytes.exact
}

impl<'a, R: ReadValue> ReadValue for LimitReader<'a, R> {
    type Types = R::Types;

    open spec fn pos(&self) -> int { self.ipos() }

    //@extract kind=fn file=rten-onnx/src/protobuf/value.rs within="impl<'a, R: ReadValue> ReadValue for LimitReader<'a, R>" name=read_i32
    //@| ensures r is Ok ==> final(self).ipos() <= old(self).iend() && final(self).iend() == old(self).iend(), // @ob:read_i32.within_limit

    //@extract kind=fn file=rten-onnx/src/protobuf/value.rs within="impl<'a, R: ReadValue> ReadValue for LimitReader<'a, R>" name=read_i64
    //@| ensures r is Ok ==> final(self).ipos() <= old(self).iend() && final(self).iend() == old(self).iend(), // @ob:read_i64.within_limit

    //@extract kind=fn file=rten-onnx/src/protobuf/value.rs within="impl<'a, R: ReadValue> ReadValue for LimitReader<'a, R>" name=read_varint
    //@| ensures r is Ok ==> old(self).ipos() + 1 <= old(self).iend() && final(self).iend() == old(self).iend(), // @ob:read_varint.has_byte

    //@extract kind=fn file=rten-onnx/src/protobuf/value.rs within="impl<'a, R: ReadValue> ReadValue for LimitReader<'a, R>" name=read_bytes
    //@| ensures r is Ok ==> final(self).ipos() <= old(self).iend() && final(self).iend() == old(self).iend(), // @ob:read_bytes.within_limit

    //@extract kind=fn file=rten-onnx/src/protobuf/value.rs within="impl<'a, R: ReadValue> ReadValue for LimitReader<'a, R>" name=read_string
    //@| ensures r is Ok ==> final(self).ipos() <= old(self).iend() && final(self).iend() == old(self).iend(), // @ob:read_string.within_limit

    //@extract kind=fn file=rten-onnx/src/protobuf/value.rs within="impl<'a, R: ReadValue> ReadValue for LimitReader<'a, R>" name=skip
    //@| ensures r is Ok ==> final(self).ipos() <= old(self).iend() && final(self).iend() == old(self).iend(), // @ob:skip.within_limit

    //@extract kind=fn file=rten-onnx/src/protobuf/value.rs within="impl<'a, R: ReadValue> ReadValue for LimitReader<'a, R>" name=position
}

} // verus!
fn main() {}
