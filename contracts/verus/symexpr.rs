// Unit U-symexpr: SymExpr::{range,is_positive,eval} and div_ceil, verbatim bodies from
// rten-shape-inference/src/sym_expr.rs.  Everything outside //@extract holes is owned by
// /verif (spec functions, lemmas, trusted declarations).
use vstd::prelude::*;
use std::sync::Arc;

verus! {

//@extract kind=struct file=rten-shape-inference/src/sym_expr.rs name=Symbol

//@extract kind=enum file=rten-shape-inference/src/sym_expr.rs name=SymExpr

// ---------------------------------------------------------------- trusted std specifications
pub open spec fn clamp_i32(x: int) -> int {
    if x > i32::MAX { i32::MAX as int } else if x < i32::MIN { i32::MIN as int } else { x }
}

pub assume_specification [i32::saturating_add] (a: i32, b: i32) -> (r: i32)
    ensures r as int == clamp_i32(a as int + b as int);

pub assume_specification [i32::saturating_sub] (a: i32, b: i32) -> (r: i32)
    ensures r as int == clamp_i32(a as int - b as int);

/// a * b, kept opaque so that the corner products in `range` do not feed the solver's
/// nonlinear matching (see lemma_mul_box).
#[verifier::opaque]
pub open spec fn smul(a: int, b: int) -> int { a * b }

pub assume_specification [i32::saturating_mul] (a: i32, b: i32) -> (r: i32)
    ensures r as int == clamp_i32(smul(a as int, b as int));

// ---------------------------------------------------------------- spec (from the property)

pub type Env = Map<Seq<char>, int>;

pub open spec fn in_i32(x: int) -> bool { i32::MIN <= x <= i32::MAX }

/// Rust's `/` on signed integers: truncation toward zero.
#[verifier::opaque]
pub open spec fn tdiv(x: int, y: int) -> int
    recommends y != 0
{
    if x >= 0 && y > 0 { x / y }
    else if x >= 0 && y < 0 { -(x / (-y)) }
    else if x < 0 && y > 0 { -((-x) / y) }
    else { (-x) / (-y) }
}

/// ceil(x / y) over the rationals.
#[verifier::opaque]
pub open spec fn cdiv(x: int, y: int) -> int
    recommends y != 0
{
    if y > 0 { -((-x) / y) } else { -(x / (-y)) }
}

pub open spec fn imax(a: int, b: int) -> int { if a >= b { a } else { b } }
pub open spec fn imin(a: int, b: int) -> int { if a <= b { a } else { b } }

/// Mathematical value of an expression under an assignment (mirrors the documented meaning
/// of each variant; `eval` is separately proved to compute exactly this).
pub open spec fn ev(e: SymExpr, env: Env) -> int
    decreases e
{
    match e {
        SymExpr::Value(x) => x as int,
        SymExpr::Var(sym) => env[sym.name@],
        SymExpr::Add(l, r) => ev(*l, env) + ev(*r, env),
        SymExpr::Sub(l, r) => ev(*l, env) - ev(*r, env),
        SymExpr::Mul(l, r) => ev(*l, env) * ev(*r, env),
        SymExpr::Div(l, r) => tdiv(ev(*l, env), ev(*r, env)),
        SymExpr::DivCeil(l, r) => cdiv(ev(*l, env), ev(*r, env)),
        SymExpr::Max(l, r) => imax(ev(*l, env), ev(*r, env)),
        SymExpr::Min(l, r) => imin(ev(*l, env), ev(*r, env)),
        SymExpr::Broadcast(l, r) => imax(ev(*l, env), ev(*r, env)),
        SymExpr::Neg(x) => -ev(*x, env),
    }
}

/// "evaluates without division by zero or overflow" + the assignment is admissible:
/// every symbol is bound to an i32, symbols declared positive are >= 0, and a Broadcast
/// node's operands are >= 0 (the documented meaning of that variant).
pub open spec fn ev_ok(e: SymExpr, env: Env) -> bool
    decreases e
{
    &&& in_i32(ev(e, env))
    &&& match e {
        SymExpr::Value(x) => true,
        SymExpr::Var(sym) => env.dom().contains(sym.name@) && (sym.positive ==> env[sym.name@] >= 0),
        SymExpr::Add(l, r) | SymExpr::Sub(l, r) | SymExpr::Mul(l, r)
        | SymExpr::Max(l, r) | SymExpr::Min(l, r) => ev_ok(*l, env) && ev_ok(*r, env),
        SymExpr::Div(l, r) | SymExpr::DivCeil(l, r) =>
            ev_ok(*l, env) && ev_ok(*r, env) && ev(*r, env) != 0,
        SymExpr::Broadcast(l, r) =>
            ev_ok(*l, env) && ev_ok(*r, env) && ev(*l, env) >= 0 && ev(*r, env) >= 0,
        SymExpr::Neg(x) => ev_ok(*x, env),
    }
}

pub open spec fn sem_nonneg(e: SymExpr) -> bool {
    forall|env: Env| #[trigger] ev_ok(e, env) ==> ev(e, env) >= 0
}

pub open spec fn sem_in_range(e: SymExpr, lo: int, hi: int) -> bool {
    forall|env: Env| #[trigger] ev_ok(e, env) ==> lo <= ev(e, env) <= hi
}

// nonlinear / division facts the solver does not find unprompted
pub broadcast proof fn lemma_mul_nonneg(x: int, y: int)
    requires x >= 0, y >= 0
    ensures #[trigger] (x * y) >= 0
{
    assert(x * y >= 0) by (nonlinear_arith) requires x >= 0, y >= 0;
}


pub proof fn lemma_mul_mono(x: int, a: int, b: int, y: int)
    requires a <= x <= b
    ensures
        y >= 0 ==> a * y <= x * y <= b * y,
        y <= 0 ==> b * y <= x * y <= a * y,
{
    if y >= 0 {
        assert(a * y <= x * y) by (nonlinear_arith) requires a <= x, y >= 0;
        assert(x * y <= b * y) by (nonlinear_arith) requires x <= b, y >= 0;
    }
    if y <= 0 {
        assert(b * y <= x * y) by (nonlinear_arith) requires x <= b, y <= 0;
        assert(x * y <= a * y) by (nonlinear_arith) requires a <= x, y <= 0;
    }
}

pub open spec fn min4(a: int, b: int, c: int, d: int) -> int { imin(imin(a, b), imin(c, d)) }
pub open spec fn max4(a: int, b: int, c: int, d: int) -> int { imax(imax(a, b), imax(c, d)) }

/// Interval product: extremes of x*y over a box are attained at the corners.
pub broadcast proof fn lemma_mul_box(x: int, y: int, a: int, b: int, c: int, d: int)
    requires a <= x <= b, c <= y <= d
    ensures
        #![trigger x * y, smul(a, c), smul(b, d)]
        min4(smul(a, c), smul(a, d), smul(b, c), smul(b, d)) <= x * y
            <= max4(smul(a, c), smul(a, d), smul(b, c), smul(b, d))
{
    reveal(smul);
    lemma_mul_mono(x, a, b, y);
    lemma_mul_mono(y, c, d, a);
    lemma_mul_mono(y, c, d, b);
    assert(a * y == y * a) by (nonlinear_arith);
    assert(b * y == y * b) by (nonlinear_arith);
    assert(c * a == a * c) by (nonlinear_arith);
    assert(d * a == a * d) by (nonlinear_arith);
    assert(c * b == b * c) by (nonlinear_arith);
    assert(d * b == b * d) by (nonlinear_arith);
}

pub broadcast proof fn lemma_tdiv_bounds(x: int, y: int)
    requires y != 0
    ensures
        x >= 0 ==> -x <= #[trigger] tdiv(x, y) <= x,
        x <= 0 ==> x <= tdiv(x, y) <= -x,
        (x >= 0 && y > 0) ==> 0 <= tdiv(x, y) <= x,
        (x <= 0 && y > 0) ==> x <= tdiv(x, y) <= 0,
{
    reveal(tdiv);
    if y > 0 {
        if x >= 0 {
            assert(0 <= x / y <= x) by (nonlinear_arith) requires x >= 0, y > 0;
        } else {
            assert(0 <= (-x) / y <= -x) by (nonlinear_arith) requires x < 0, y > 0;
        }
    } else {
        if x >= 0 {
            assert(0 <= x / (-y) <= x) by (nonlinear_arith) requires x >= 0, y < 0;
        } else {
            assert(0 <= (-x) / (-y) <= -x) by (nonlinear_arith) requires x < 0, y < 0;
        }
    }
}

pub broadcast proof fn lemma_cdiv_bounds(x: int, y: int)
    requires y != 0
    ensures
        (x >= 0 && y > 0) ==> 0 <= #[trigger] cdiv(x, y) <= x,
        (x <= 0 && y > 0) ==> x <= cdiv(x, y) <= 0,
        x >= 0 ==> -x <= cdiv(x, y) <= x,
        x <= 0 ==> x <= cdiv(x, y) <= -x,
{
    reveal(cdiv);
    if y > 0 {
        if x > 0 {
            // (-x)/y is floor of a negative rational: -x <= (-x)/y <= 0  (Euclidean, y>0)
            assert(-x <= (-x) / y <= 0) by (nonlinear_arith) requires x > 0, y > 0;
        } else {
            assert(0 <= (-x) / y <= -x) by (nonlinear_arith) requires x <= 0, y > 0;
        }
    } else {
        if x >= 0 {
            assert(0 <= x / (-y) <= x) by (nonlinear_arith) requires x >= 0, y < 0;
        } else {
            assert(x <= x / (-y) <= 0) by (nonlinear_arith) requires x < 0, y < 0;
        }
    }
}



/// Unfolding hint: Verus unfolds a recursive spec function into fuel-indexed calls that do
/// not match user-level triggers; this lemma restates one unfolding step of `ev_ok`/`ev`
/// in user-level terms so that callee postconditions (quantified over env) fire.
pub broadcast proof fn lemma_unfold(e: SymExpr, env: Env)
    requires #[trigger] ev_ok(e, env)
    ensures
        match e {
            SymExpr::Value(x) => ev(e, env) == x as int,
            SymExpr::Var(sym) => ev(e, env) == env[sym.name@] && (sym.positive ==> ev(e, env) >= 0),
            SymExpr::Add(l, r) => ev_ok(*l, env) && ev_ok(*r, env) && ev(e, env) == ev(*l, env) + ev(*r, env),
            SymExpr::Sub(l, r) => ev_ok(*l, env) && ev_ok(*r, env) && ev(e, env) == ev(*l, env) - ev(*r, env),
            SymExpr::Mul(l, r) => ev_ok(*l, env) && ev_ok(*r, env) && ev(e, env) == ev(*l, env) * ev(*r, env),
            SymExpr::Div(l, r) => ev_ok(*l, env) && ev_ok(*r, env) && ev(*r, env) != 0 && ev(e, env) == tdiv(ev(*l, env), ev(*r, env)),
            SymExpr::DivCeil(l, r) => ev_ok(*l, env) && ev_ok(*r, env) && ev(*r, env) != 0 && ev(e, env) == cdiv(ev(*l, env), ev(*r, env)),
            SymExpr::Max(l, r) => ev_ok(*l, env) && ev_ok(*r, env) && ev(e, env) == imax(ev(*l, env), ev(*r, env)),
            SymExpr::Min(l, r) => ev_ok(*l, env) && ev_ok(*r, env) && ev(e, env) == imin(ev(*l, env), ev(*r, env)),
            SymExpr::Broadcast(l, r) => ev_ok(*l, env) && ev_ok(*r, env) && ev(*l, env) >= 0 && ev(*r, env) >= 0
                && ev(e, env) == imax(ev(*l, env), ev(*r, env)),
            SymExpr::Neg(x) => ev_ok(*x, env) && ev(e, env) == -ev(*x, env),
        },
        in_i32(ev(e, env)),
{
}

/// `div_ceil` (free function in sym_expr.rs) uses bit tricks outside Verus' automation; its
/// contract -- exact ceiling division -- is discharged over the full i32 x i32 domain by the Kani
/// harness U-symexpr-k:div_ceil.exact and assumed here so that code calling it can be verified.
#[verifier::external_body]
pub fn div_ceil(lhs: i32, rhs: i32) -> (r: i32)
    requires rhs != 0, in_i32(cdiv(lhs as int, rhs as int))
    ensures r as int == cdiv(lhs as int, rhs as int)
{ unimplemented!() }

// ---------------------------------------------------------------- code under contract
pub mod code_is_positive {
use super::*;
broadcast use {lemma_unfold, lemma_mul_nonneg, lemma_tdiv_bounds, lemma_cdiv_bounds};

impl SymExpr {
    //@extract kind=fn file=rten-shape-inference/src/sym_expr.rs within="impl SymExpr" name=is_positive vis=pub
    //@| ensures r ==> sem_nonneg(*self), // @ob:is_positive.sound
    //@| decreases self
}
} // mod

pub mod code_range {
use super::*;
// (lemma_mul_nonneg is deliberately not in scope here: together with lemma_mul_box it sends
// Z3's nonlinear matching past the resource limit)
broadcast use {lemma_unfold, lemma_mul_box, lemma_tdiv_bounds, lemma_cdiv_bounds};

impl SymExpr {
    //@extract kind=fn file=rten-shape-inference/src/sym_expr.rs within="impl SymExpr" name=range vis=pub
    //@| ensures sem_in_range(*self, r.0 as int, r.1 as int), // @ob:range.sound
    //@| decreases self
}
} // mod

} // verus!
fn main() {}
