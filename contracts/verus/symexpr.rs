#![feature(allocator_api)]
// Unit U-symexpr: SymExpr::{range,is_positive}, verbatim bodies from
// rten-shape-inference/src/sym_expr.rs, stated against the shared specification
// (contracts/verus/symexpr_spec.inc.rs: ev / okp, unmasked).
use vstd::prelude::*;
use std::sync::Arc;

verus! {

//@extract kind=struct file=rten-shape-inference/src/sym_expr.rs name=Symbol

//@extract kind=enum file=rten-shape-inference/src/sym_expr.rs name=SymExpr

//@include contracts/verus/symexpr_spec.inc.rs

// ---------------------------------------------------------------- trusted std specifications
pub open spec fn clamp_i32(x: int) -> int {
    if x > i32::MAX { i32::MAX as int } else if x < i32::MIN { i32::MIN as int } else { x }
}

pub assume_specification [i32::saturating_add] (a: i32, b: i32) -> (r: i32)
    ensures r as int == clamp_i32(a as int + b as int);

pub assume_specification [i32::saturating_sub] (a: i32, b: i32) -> (r: i32)
    ensures r as int == clamp_i32(a as int - b as int);

/// a * b for the corner products in `range` (a second opaque name, so that the box lemma's
/// trigger separates the product being bounded from the corners).
#[verifier::opaque]
pub open spec fn cmul(a: int, b: int) -> int { a * b }

pub assume_specification [i32::saturating_mul] (a: i32, b: i32) -> (r: i32)
    ensures r as int == clamp_i32(cmul(a as int, b as int));

/// `div_ceil` (free function in sym_expr.rs): not called by range/is_positive today; declared so
/// that code calling it stays decidable. Contract discharged over the full i32 x i32 domain by
/// the Kani harness U-symexpr-k:div_ceil.exact and assumed here.
#[verifier::external_body]
pub fn div_ceil(lhs: i32, rhs: i32) -> (r: i32)
    requires rhs != 0, in_i32(cdiv(lhs as int, rhs as int))
    ensures r as int == cdiv(lhs as int, rhs as int)
{ unimplemented!() }

pub open spec fn sem_nonneg(e: SymExpr) -> bool {
    forall|env: Env| #[trigger] okp(e, env) ==> ev(e, env) >= 0
}

pub open spec fn sem_in_range(e: SymExpr, lo: int, hi: int) -> bool {
    forall|env: Env| #[trigger] okp(e, env) ==> lo <= ev(e, env) <= hi
}

pub broadcast proof fn lemma_smul_nonneg(x: int, y: int)
    requires x >= 0, y >= 0
    ensures #[trigger] smul(x, y) >= 0
{
    reveal(smul);
    assert(x * y >= 0) by (nonlinear_arith) requires x >= 0, y >= 0;
}

pub proof fn lemma_mul_mono(x: int, a: int, b: int, y: int)
    requires a <= x <= b
    ensures
        y >= 0 ==> a * y <= x * y <= b * y,
        y <= 0 ==> b * y <= x * y <= a * y,
{
    if y >= 0 {
        assert(a * y <= x * y) by (nonlinear_arith) requires a <= x, y >= 0;
        assert(x * y <= b * y) by (nonlinear_arith) requires x <= b, y >= 0;
    }
    if y <= 0 {
        assert(b * y <= x * y) by (nonlinear_arith) requires x <= b, y <= 0;
        assert(x * y <= a * y) by (nonlinear_arith) requires a <= x, y <= 0;
    }
}

pub open spec fn min4(a: int, b: int, c: int, d: int) -> int { imin(imin(a, b), imin(c, d)) }
pub open spec fn max4(a: int, b: int, c: int, d: int) -> int { imax(imax(a, b), imax(c, d)) }

/// Interval product: extremes of x*y over a box are attained at the corners.
pub broadcast proof fn lemma_mul_box(x: int, y: int, a: int, b: int, c: int, d: int)
    requires a <= x <= b, c <= y <= d
    ensures
        #![trigger smul(x, y), cmul(a, c), cmul(b, d)]
        min4(cmul(a, c), cmul(a, d), cmul(b, c), cmul(b, d)) <= smul(x, y)
            <= max4(cmul(a, c), cmul(a, d), cmul(b, c), cmul(b, d))
{
    reveal(smul); reveal(cmul);
    lemma_mul_mono(x, a, b, y);
    lemma_mul_mono(y, c, d, a);
    lemma_mul_mono(y, c, d, b);
    assert(a * y == y * a) by (nonlinear_arith);
    assert(b * y == y * b) by (nonlinear_arith);
    assert(c * a == a * c) by (nonlinear_arith);
    assert(d * a == a * d) by (nonlinear_arith);
    assert(c * b == b * c) by (nonlinear_arith);
    assert(d * b == b * d) by (nonlinear_arith);
}

pub broadcast proof fn lemma_tdiv_bounds(x: int, y: int)
    requires y != 0
    ensures
        x >= 0 ==> -x <= #[trigger] tdiv(x, y) <= x,
        x <= 0 ==> x <= tdiv(x, y) <= -x,
        (x >= 0 && y > 0) ==> 0 <= tdiv(x, y) <= x,
        (x <= 0 && y > 0) ==> x <= tdiv(x, y) <= 0,
{
    reveal(tdiv);
    if y > 0 {
        if x >= 0 {
            assert(0 <= x / y <= x) by (nonlinear_arith) requires x >= 0, y > 0;
        } else {
            assert(0 <= (-x) / y <= -x) by (nonlinear_arith) requires x < 0, y > 0;
        }
    } else {
        if x >= 0 {
            assert(0 <= x / (-y) <= x) by (nonlinear_arith) requires x >= 0, y < 0;
        } else {
            assert(0 <= (-x) / (-y) <= -x) by (nonlinear_arith) requires x < 0, y < 0;
        }
    }
}

pub broadcast proof fn lemma_cdiv_bounds(x: int, y: int)
    requires y != 0
    ensures
        (x >= 0 && y > 0) ==> 0 <= #[trigger] cdiv(x, y) <= x,
        (x <= 0 && y > 0) ==> x <= cdiv(x, y) <= 0,
        x >= 0 ==> -x <= cdiv(x, y) <= x,
        x <= 0 ==> x <= cdiv(x, y) <= -x,
{
    reveal(cdiv);
    if y > 0 {
        if x > 0 {
            assert(-x <= (-x) / y <= 0) by (nonlinear_arith) requires x > 0, y > 0;
        } else {
            assert(0 <= (-x) / y <= -x) by (nonlinear_arith) requires x <= 0, y > 0;
        }
    } else {
        if x >= 0 {
            assert(0 <= x / (-y) <= x) by (nonlinear_arith) requires x >= 0, y < 0;
        } else {
            assert(x <= x / (-y) <= 0) by (nonlinear_arith) requires x < 0, y < 0;
        }
    }
}

// ---------------------------------------------------------------- code under contract
pub mod code_is_positive {
use super::*;
broadcast use {lemma_unfold_okp, lemma_smul_nonneg, lemma_tdiv_bounds, lemma_cdiv_bounds};

impl SymExpr {
    //@extract kind=fn file=rten-shape-inference/src/sym_expr.rs within="impl SymExpr" name=is_positive vis=pub
    //@| ensures r ==> sem_nonneg(*self), // @ob:is_positive.sound
    //@| decreases self
}
} // mod

pub mod code_range {
use super::*;
broadcast use {lemma_unfold_okp, lemma_mul_box, lemma_tdiv_bounds, lemma_cdiv_bounds};

impl SymExpr {
    //@extract kind=fn file=rten-shape-inference/src/sym_expr.rs within="impl SymExpr" name=range vis=pub
    //@| ensures sem_in_range(*self, r.0 as int, r.1 as int), // @ob:range.sound
    //@| decreases self
}
} // mod

} // verus!
fn main() {}
