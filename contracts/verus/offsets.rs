// Unit U-offsets-v: IterPos and OffsetsBase::{next,pos,ndim,size_hint,truncate} (rten-tensor/src/iterators.rs), verbatim bodies,
// for ARBITRARY sizes, strides and number of outer dimensions (unbounded).
// `OffsetsBase::step_outer_pos` uses iterator adaptors outside Verus' subset: its contract is
// ASSUMED here (external_body) and checked by the bounded Kani unit U-offsets.
use vstd::prelude::*;

verus! {

//@extract kind=const file=rten-tensor/src/iterators.rs name=INNER_NDIM

//@extract kind=struct file=rten-tensor/src/iterators.rs name=IterPos keep_attrs=1

//@extract kind=struct file=rten-tensor/src/iterators.rs name=OffsetsBase

// ---------------------------------------------------------------- reference semantics
/// a * b, opaque: the code only ever needs the facts in `lemma_pmul`.
#[verifier::opaque]
spec fn pmul(a: int, b: int) -> int { a * b }

broadcast proof fn lemma_pmul(a: int, b: int)
    requires a >= 0, b >= 0
    ensures
        #![trigger pmul(a, b)]
        pmul(a, b) >= 0,
        a == 0 ==> pmul(a, b) == 0,
        pmul(a, b) == a * b,
{
    reveal(pmul);
    assert(a * b >= 0) by (nonlinear_arith) requires a >= 0, b >= 0;
}

/// successor / monotonicity facts between two EXISTING pmul terms (no new terms are created,
/// so the lemma cannot feed itself)
broadcast proof fn lemma_pmul_rel(a: int, c: int, b: int)
    requires a >= 0, c >= 0, b >= 0
    ensures
        #![trigger pmul(a, b), pmul(c, b)]
        c == a + 1 ==> pmul(c, b) == pmul(a, b) + b,
        a <= c ==> pmul(a, b) <= pmul(c, b),
        a < c ==> pmul(a, b) + b <= pmul(c, b),
{
    reveal(pmul);
    assert((a + 1) * b == a * b + b) by (nonlinear_arith);
    if a <= c { assert(a * b <= c * b) by (nonlinear_arith) requires 0 <= a <= c, b >= 0; }
    if a < c { assert((a + 1) * b <= c * b) by (nonlinear_arith) requires 0 <= a + 1 <= c, b >= 0; }
}

/// links a raw product computed by the code (`index * stride`) to an existing pmul bound
broadcast proof fn lemma_raw_mul(a: int, b: int, c: int)
    requires 0 <= a <= c, b >= 0
    ensures
        #![trigger a * b, pmul(c, b)]
        a * b == pmul(a, b),
        a * b <= pmul(c, b),
        a * b >= 0,
{
    reveal(pmul);
    assert(a * b <= c * b) by (nonlinear_arith) requires 0 <= a <= c, b >= 0;
    assert(a * b >= 0) by (nonlinear_arith) requires 0 <= a, b >= 0;
}

proof fn lemma_pmul_mono(a: int, c: int, b: int)
    requires 0 <= a <= c, b >= 0
    ensures pmul(a, b) <= pmul(c, b)
{
    reveal(pmul);
    assert(a * b <= c * b) by (nonlinear_arith) requires 0 <= a <= c, b >= 0;
}

impl IterPos {
    /// current index along this dimension
    spec fn idx(&self) -> int { self.max_remaining - self.remaining }
    spec fn sz(&self) -> int { self.max_remaining + 1 }
    /// representation invariant: offset == index * stride, and one step past the last index
    /// is still representable (the optimistic `inner_offset += stride` in `next` needs it)
    spec fn wf(&self) -> bool {
        &&& self.remaining <= self.max_remaining
        &&& self.max_remaining < usize::MAX
        &&& self.offset as int == pmul(self.idx(), self.stride as int)
        &&& pmul(self.sz(), self.stride as int) <= usize::MAX
    }
    spec fn same_dim(&self, o: &IterPos) -> bool { self.stride == o.stride && self.max_remaining == o.max_remaining }
}

/// mixed-radix value of the first k digits (outermost first)
spec fn lin(s: Seq<IterPos>, k: int) -> int
    decreases k
{
    if k <= 0 { 0 } else { pmul(lin(s, k - 1), s[k - 1].sz()) + s[k - 1].idx() }
}

spec fn total(s: Seq<IterPos>, k: int) -> int
    decreases k
{
    if k <= 0 { 1 } else { pmul(total(s, k - 1), s[k - 1].sz()) }
}

spec fn osum(s: Seq<IterPos>, k: int) -> int
    decreases k
{
    if k <= 0 { 0 } else { osum(s, k - 1) + s[k - 1].offset }
}

/// largest reachable sum of offsets of the first k positions
spec fn omax(s: Seq<IterPos>, k: int) -> int
    decreases k
{
    if k <= 0 { 0 } else { omax(s, k - 1) + pmul(s[k - 1].max_remaining as int, s[k - 1].stride as int) }
}

/// omax only depends on the dimensions (sizes/strides), not on the current positions.
proof fn lemma_omax_same_dims(a: Seq<IterPos>, b: Seq<IterPos>, k: int)
    requires same_dims(a, b), 0 <= k <= a.len()
    ensures omax(a, k) == omax(b, k), total(a, k) == total(b, k)
    decreases k
{
    if k > 0 {
        lemma_omax_same_dims(a, b, k - 1);
        assert(a[k - 1].same_dim(&b[k - 1]));
    }
}

/// osum <= omax for well-formed positions.
proof fn lemma_osum_le_omax(s: Seq<IterPos>, k: int)
    requires all_wf(s), 0 <= k <= s.len()
    ensures 0 <= osum(s, k) <= omax(s, k)
    decreases k
{
    if k > 0 {
        lemma_osum_le_omax(s, k - 1);
        let p = s[k - 1];
        assert(p.wf());
        lemma_pmul_mono(p.idx(), p.max_remaining as int, p.stride as int);
    }
}

spec fn all_wf(s: Seq<IterPos>) -> bool { forall|i: int| 0 <= i < s.len() ==> (#[trigger] s[i]).wf() }

spec fn same_dims(a: Seq<IterPos>, b: Seq<IterPos>) -> bool {
    a.len() == b.len() && forall|i: int| 0 <= i < a.len() ==> (#[trigger] a[i]).same_dim(&b[i])
}

broadcast proof fn lemma_lin_nonneg(s: Seq<IterPos>, k: int)
    requires all_wf(s), 0 <= k <= s.len()
    ensures #[trigger] lin(s, k) >= 0
    decreases k
{
    if k > 0 {
        lemma_lin_nonneg(s, k - 1);
        assert(s[k - 1].wf());
        lemma_pmul(lin(s, k - 1), s[k - 1].sz());
    }
}

broadcast proof fn lemma_total_pos(s: Seq<IterPos>, k: int)
    requires all_wf(s), 0 <= k <= s.len()
    ensures #[trigger] total(s, k) >= 1
    decreases k
{
    if k > 0 {
        lemma_total_pos(s, k - 1);
        assert(s[k - 1].wf());
        reveal(pmul);
        assert(total(s, k - 1) * s[k - 1].sz() >= 1) by (nonlinear_arith)
            requires total(s, k - 1) >= 1, s[k - 1].sz() >= 1;
    }
}

impl OffsetsBase {
    /// all digits, outermost first: outer_pos ++ inner_pos
    spec fn digits(&self) -> Seq<IterPos> { self.outer_pos@ + self.inner_pos@ }

    spec fn wf(&self) -> bool {
        &&& all_wf(self.outer_pos@)
        &&& self.inner_pos[0].wf() && self.inner_pos[1].wf()
        &&& self.inner_offset as int == self.inner_pos[0].offset + self.inner_pos[1].offset
        &&& self.outer_offset as int == osum(self.outer_pos@, self.outer_pos@.len() as int)
        &&& self.outer_offset as int <= omax(self.outer_pos@, self.outer_pos@.len() as int)
        // layout invariant: the largest offset plus one stride of each inner dim is representable
        &&& omax(self.outer_pos@, self.outer_pos@.len() as int)
              + pmul(self.inner_pos[0].sz(), self.inner_pos[0].stride as int)
              + pmul(self.inner_pos[1].sz(), self.inner_pos[1].stride as int) <= usize::MAX
    }

    /// post-state of a successful `next`: same dimensions, well-formed, and the front index
    /// advanced by exactly one (or wrapped to 0 after the very last element)
    spec fn advanced_from(&self, old: &OffsetsBase) -> bool {
        &&& same_dims(self.outer_pos@, old.outer_pos@)
        &&& self.inner_pos[0].same_dim(&old.inner_pos[0]) && self.inner_pos[1].same_dim(&old.inner_pos[1])
        &&& self.wf()
        &&& (self.front() == old.front() + 1 || (self.front() == 0 && old.front() + 1 == old.n_total()))
    }

    /// linear (row-major) index of the next front element
    spec fn front(&self) -> int {
        pmul(pmul(lin(self.outer_pos@, self.outer_pos@.len() as int), self.inner_pos[0].sz()) + self.inner_pos[0].idx(),
             self.inner_pos[1].sz()) + self.inner_pos[1].idx()
    }

    spec fn n_total(&self) -> int {
        pmul(pmul(total(self.outer_pos@, self.outer_pos@.len() as int), self.inner_pos[0].sz()), self.inner_pos[1].sz())
    }

    /// offset of the front element: sum over all dims of index * stride
    spec fn front_offset(&self) -> int {
        osum(self.outer_pos@, self.outer_pos@.len() as int)
            + pmul(self.inner_pos[0].idx(), self.inner_pos[0].stride as int)
            + pmul(self.inner_pos[1].idx(), self.inner_pos[1].stride as int)
    }

    /// ASSUMED contract of step_outer_pos (iterator adaptors; checked bounded by Kani U-offsets):
    /// advances the outer mixed-radix counter by one, or wraps it to zero and returns false when
    /// it was at its last value; keeps every position well-formed and `outer_offset` in sync.
    #[verifier::external_body]
    fn step_outer_pos(&mut self) -> (r: bool)
        requires all_wf(old(self).outer_pos@),
        ensures
            all_wf(final(self).outer_pos@),
            same_dims(final(self).outer_pos@, old(self).outer_pos@),
            final(self).inner_pos == old(self).inner_pos,
            final(self).inner_offset == old(self).inner_offset,
            final(self).len == old(self).len,
            final(self).outer_offset as int == osum(final(self).outer_pos@, final(self).outer_pos@.len() as int),
            final(self).outer_offset as int <= omax(final(self).outer_pos@, final(self).outer_pos@.len() as int),
            omax(final(self).outer_pos@, final(self).outer_pos@.len() as int)
                == omax(old(self).outer_pos@, old(self).outer_pos@.len() as int),
            lin(old(self).outer_pos@, old(self).outer_pos@.len() as int) >= 0,
            total(old(self).outer_pos@, old(self).outer_pos@.len() as int) >= 1,
            r ==> lin(final(self).outer_pos@, final(self).outer_pos@.len() as int)
                    == lin(old(self).outer_pos@, old(self).outer_pos@.len() as int) + 1,
            !r ==> lin(final(self).outer_pos@, final(self).outer_pos@.len() as int) == 0
                    && lin(old(self).outer_pos@, old(self).outer_pos@.len() as int) + 1
                        == total(old(self).outer_pos@, old(self).outer_pos@.len() as int),
            total(final(self).outer_pos@, final(self).outer_pos@.len() as int)
                == total(old(self).outer_pos@, old(self).outer_pos@.len() as int),
    { unimplemented!() }
}

// ---------------------------------------------------------------- code under contract
pub mod code {
use super::*;
broadcast use {lemma_pmul, lemma_pmul_rel, lemma_raw_mul, lemma_lin_nonneg, lemma_total_pos};

impl IterPos {
    //@extract kind=fn file=rten-tensor/src/iterators.rs within="impl IterPos" name=step vis=pub(super)
    //@| requires old(self).wf()
    //@| ensures
    //@|     final(self).wf(), final(self).same_dim(old(self)),
    //@|     r == (old(self).remaining != 0),
    //@|     r ==> final(self).idx() == old(self).idx() + 1,
    //@|     !r ==> final(self).idx() == 0 && old(self).idx() == old(self).max_remaining && final(self).offset == 0, // @ob:IterPos.step

    //@extract kind=fn file=rten-tensor/src/iterators.rs within="impl IterPos" name=size vis=pub(super)
    //@| requires self.max_remaining < usize::MAX
    //@| ensures r as int == self.sz()

    //@extract kind=fn file=rten-tensor/src/iterators.rs within="impl IterPos" name=index vis=pub(super)
    //@| requires self.remaining <= self.max_remaining
    //@| ensures r as int == self.idx()

    //@extract kind=fn file=rten-tensor/src/iterators.rs within="impl IterPos" name=set_index vis=pub(super)
    //@| requires old(self).wf(), index <= old(self).max_remaining
    //@| ensures final(self).wf(), final(self).same_dim(old(self)), final(self).idx() == index, // @ob:IterPos.set_index

    //@extract kind=fn file=rten-tensor/src/iterators.rs within="impl IterPos" name=from_size_stride vis=pub(super)
    //@| requires size >= 1 ==> pmul(size as int, stride as int) <= usize::MAX
    //@| ensures r.idx() == 0, r.stride == stride, r.offset == 0, size >= 1 ==> r.sz() == size && r.wf(), // @ob:IterPos.from_size_stride
}

impl OffsetsBase {
    //@extract kind=fn file=rten-tensor/src/iterators.rs within="impl OffsetsBase" name=truncate vis=pub(super)
    //@| ensures final(self).len == (if old(self).len <= len { old(self).len } else { len }),
    //@|     final(self).inner_pos == old(self).inner_pos, final(self).outer_pos == old(self).outer_pos,
    //@|     final(self).inner_offset == old(self).inner_offset, final(self).outer_offset == old(self).outer_offset, // @ob:truncate.only_len


    //@extract kind=fn file=rten-tensor/src/iterators.rs within="impl OffsetsBase" name=ndim vis=pub(super)
    //@| requires self.outer_pos@.len() + INNER_NDIM <= usize::MAX
    //@| ensures r as int == self.digits().len(), // @ob:ndim.exact

    //@extract kind=fn file=rten-tensor/src/iterators.rs within="impl OffsetsBase" name=pos vis=pub(super)
    //@| requires dim < self.digits().len()
    //@| ensures r == self.digits()[dim as int], // @ob:pos.selects_digit

    //@extract kind=fn file=rten-tensor/src/iterators.rs within="impl Iterator for OffsetsBase" name=next
    //@| requires old(self).wf()
    //@| ensures
    //@|     old(self).len == 0 ==> r is None && final(self).len == 0,
    //@|     old(self).len > 0 ==> r == Some((old(self).outer_offset + old(self).inner_offset) as usize)
    //@|         && (old(self).outer_offset + old(self).inner_offset) as int == old(self).front_offset()   // @ob:next.yields_front_offset
    //@|         && final(self).len == old(self).len - 1,
    //@|     old(self).len > 0 ==> final(self).advanced_from(old(self)), // @ob:next.advances_front_by_one

    //@extract kind=fn file=rten-tensor/src/iterators.rs within="impl Iterator for OffsetsBase" name=size_hint
    //@| ensures r.0 == self.len, r.1 == Some(self.len), // @ob:size_hint.exact
}
} // mod code

} // verus!
fn main() {}
