#![feature(allocator_api)]
// Unit U-symexpr-simp: SymExpr::simplify_canonical (second stage of SymExpr::simplify) and the
// constructors it calls (operator impls, SymExpr::div_ceil), verbatim bodies from
// rten-shape-inference/src/sym_expr.rs.  Everything outside //@extract holes is owned by /verif.
//
// What is proved (obligation simplify_canonical.preserves_eval_masked): for every assignment
// `env` under which the original expression evaluates without division by zero or overflow
// (okp), the result is well defined (okw) and has the same value.  Three input classes are
// *excluded* from okp/okw because the real code violates the property there (known findings,
// see KNOWN_FINDINGS.txt / DESIGN.md D25-D27); the unmasked obligations are the modules
// `lit_*` below and are expected to fail:
//   F1 no_overflow_in_result : the result may overflow where the original did not
//                              (x / b / c => x / (b * c)); okw has no i32 bounds
//   F2 divceil_neg_divisor   : x.div_ceil(b).div_ceil(c) => x.div_ceil(b * c) is wrong for c < 0;
//                              okp/okw demand DivCeil divisors > 0
//   F3 broadcast_semantics   : Broadcast rules assume operands >= 1 and broadcast-compatible
//                              while eval() computes max(); okp/okw demand exactly that
use vstd::prelude::*;
use std::sync::Arc;
use std::ops::{Add, Sub, Mul, Div};

verus! {

//@extract kind=struct file=rten-shape-inference/src/sym_expr.rs name=Symbol

//@extract kind=enum file=rten-shape-inference/src/sym_expr.rs name=SymExpr

//@include contracts/verus/symexpr_spec.inc.rs

// ---------------------------------------------------------------- trusted declarations
// (every item here is an assumption and is listed by the assumption scan in the evidence)

/// #[derive(Clone)] on SymExpr (attributes are dropped by the extraction).
impl Clone for SymExpr {
    #[verifier::external_body]
    fn clone(&self) -> (r: Self) ensures r == *self { unimplemented!() }
}

/// SymExpr's hand-written PartialEq (closures over &Arc comparisons: outside Verus' subset).
/// Assumed: equal expressions have the same value and definedness under every assignment.
impl PartialEq<SymExpr> for SymExpr {
    #[verifier::external_body]
    fn eq(&self, other: &SymExpr) -> (r: bool) ensures r ==> same_meaning(*self, *other) { unimplemented!() }
}

pub assume_specification<T: Clone, A: std::alloc::Allocator> [Arc::<T, A>::unwrap_or_clone] (this: Arc<T, A>) -> (r: T)
    ensures r == *this;

pub assume_specification<T> [<Arc<T> as From<T>>::from] (t: T) -> (r: Arc<T>)
    ensures *r == t;

/// `div_ceil` (free function in sym_expr.rs): contract discharged over the full i32 x i32
/// domain by the Kani harness U-symexpr-k:div_ceil.exact and assumed here.
#[verifier::external_body]
pub fn div_ceil(lhs: i32, rhs: i32) -> (r: i32)
    requires rhs != 0, in_i32(cdiv(lhs as int, rhs as int))
    ensures r as int == cdiv(lhs as int, rhs as int)
{ unimplemented!() }

/// SymExpr::is_positive / SymExpr::range: not called by simplify_canonical today; declared so that
/// a rewrite rule guarded by them stays decidable. Their contracts are discharged in unit
/// U-symexpr (obligations SymExpr::is_positive.sound / SymExpr::range.sound, whose premise ev_ok
/// is implied by okp) and assumed here.
impl SymExpr {
    #[verifier::external_body]
    pub fn is_positive(&self) -> (r: bool)
        ensures r ==> forall|env: Env| #[trigger] okp(*self, env) ==> ev(*self, env) >= 0
    { unimplemented!() }

    #[verifier::external_body]
    pub fn range(&self) -> (r: (i32, i32))
        ensures forall|env: Env| #[trigger] okp(*self, env) ==> r.0 <= ev(*self, env) <= r.1
    { unimplemented!() }
}

/// remove_common_factors (Vec, iterator adapters, closures, let-chains: outside Verus' subset).
/// Assumed: the quotient of the results equals the quotient of the arguments wherever the
/// latter is defined, and the results are defined there.
#[verifier::external_body]
fn remove_common_factors(lhs: SymExpr, rhs: SymExpr) -> (r: (SymExpr, SymExpr))
    ensures
        forall|env: Env| #![trigger good(lhs, env), good(rhs, env)]
            good(lhs, env) && good(rhs, env) && ev(rhs, env) != 0 && in_i32(tdiv(ev(lhs, env), ev(rhs, env))) ==>
                good(r.0, env) && good(r.1, env) && ev(r.1, env) != 0
                && tdiv(ev(r.0, env), ev(r.1, env)) == tdiv(ev(lhs, env), ev(rhs, env)),
{ unimplemented!() }

impl vstd::std_specs::ops::AddSpecImpl<SymExpr> for SymExpr {
    open spec fn obeys_add_spec() -> bool { true }
    open spec fn add_req(self, rhs: SymExpr) -> bool { true }
    open spec fn add_spec(self, rhs: SymExpr) -> SymExpr { SymExpr::Add(Arc::new(self), Arc::new(rhs)) }
}
impl vstd::std_specs::ops::SubSpecImpl<SymExpr> for SymExpr {
    open spec fn obeys_sub_spec() -> bool { true }
    open spec fn sub_req(self, rhs: SymExpr) -> bool { true }
    open spec fn sub_spec(self, rhs: SymExpr) -> SymExpr { SymExpr::Sub(Arc::new(self), Arc::new(rhs)) }
}
impl vstd::std_specs::ops::MulSpecImpl<SymExpr> for SymExpr {
    open spec fn obeys_mul_spec() -> bool { true }
    open spec fn mul_req(self, rhs: SymExpr) -> bool { true }
    open spec fn mul_spec(self, rhs: SymExpr) -> SymExpr { SymExpr::Mul(Arc::new(self), Arc::new(rhs)) }
}
impl vstd::std_specs::ops::DivSpecImpl<SymExpr> for SymExpr {
    open spec fn obeys_div_spec() -> bool { true }
    open spec fn div_req(self, rhs: SymExpr) -> bool { true }
    open spec fn div_spec(self, rhs: SymExpr) -> SymExpr { SymExpr::Div(Arc::new(self), Arc::new(rhs)) }
}

// ---------------------------------------------------------------- code under contract
pub mod code {
use super::*;
broadcast use {lemma_unfold_okp, lemma_unfold_okw, lemma_fold_mul, lemma_fold_div, lemma_fold_divceil, lemma_smul_one_l, lemma_smul_one_r, lemma_mul_smul, lemma_tdiv_one, lemma_cdiv_one, lemma_cdiv_self,
               lemma_tdiv_tdiv, lemma_cdiv_cdiv, lemma_tdiv_exec};

impl Add<SymExpr> for SymExpr {
    type Output = SymExpr;
    //@extract kind=fn file=rten-shape-inference/src/sym_expr.rs within="impl Add<SymExpr> for SymExpr" name=add
}
impl Sub<SymExpr> for SymExpr {
    type Output = SymExpr;
    //@extract kind=fn file=rten-shape-inference/src/sym_expr.rs within="impl Sub<SymExpr> for SymExpr" name=sub
}
impl Mul<SymExpr> for SymExpr {
    type Output = SymExpr;
    //@extract kind=fn file=rten-shape-inference/src/sym_expr.rs within="impl Mul<SymExpr> for SymExpr" name=mul
}
impl Div<SymExpr> for SymExpr {
    type Output = SymExpr;
    //@extract kind=fn file=rten-shape-inference/src/sym_expr.rs within="impl Div<SymExpr> for SymExpr" name=div
}

impl SymExpr {
    //@extract kind=fn file=rten-shape-inference/src/sym_expr.rs within="impl SymExpr" name=div_ceil vis=pub
    //@| ensures r == SymExpr::DivCeil(Arc::new(*self), Arc::new(*other)),

    //@extract kind=fn file=rten-shape-inference/src/sym_expr.rs within="impl SymExpr" name=simplify_canonical vis=pub
    //@| requires satisfiable(self), // @ob:premise.satisfiable
    //@| ensures preserves(self, r), // @ob:simplify_canonical.preserves_eval
    //@| decreases self
}
} // mod

} // verus!
fn main() {}
