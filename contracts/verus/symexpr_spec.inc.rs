// Shared specification and lemmas for the SymExpr units (included by //@include; the
// tokens @@F1@@/@@F2@@/@@F3@@ are unit parameters, see contracts/units.d/symexpr.json).
// ---------------------------------------------------------------- spec (from the property)

pub type Env = Map<Seq<char>, int>;

pub open spec fn in_i32(x: int) -> bool { i32::MIN <= x <= i32::MAX }

/// Rust's `/` on signed integers: truncation toward zero.
#[verifier::opaque]
pub open spec fn tdiv(x: int, y: int) -> int
    recommends y != 0
{
    if x >= 0 && y > 0 { x / y }
    else if x >= 0 && y < 0 { -(x / (-y)) }
    else if x < 0 && y > 0 { -((-x) / y) }
    else { (-x) / (-y) }
}

/// ceil(x / y) over the rationals.
#[verifier::opaque]
pub open spec fn cdiv(x: int, y: int) -> int
    recommends y != 0
{
    if y > 0 { -((-x) / y) } else { -(x / (-y)) }
}

/// a * b, opaque: products of evaluated sub-expressions stay out of Z3's nonlinear core (with a
/// plain `*` the Mul arm verifies sub-arm by sub-arm but not as a whole); see lemma_mul_smul.
#[verifier::opaque]
pub open spec fn smul(a: int, b: int) -> int { a * b }

pub open spec fn imax(a: int, b: int) -> int { if a >= b { a } else { b } }
pub open spec fn imin(a: int, b: int) -> int { if a <= b { a } else { b } }

/// Mathematical value of an expression under an assignment (same definition as in unit
/// U-symexpr).
pub open spec fn ev(e: SymExpr, env: Env) -> int
    decreases e
{
    match e {
        SymExpr::Value(x) => x as int,
        SymExpr::Var(sym) => env[sym.name@],
        SymExpr::Add(l, r) => ev(*l, env) + ev(*r, env),
        SymExpr::Sub(l, r) => ev(*l, env) - ev(*r, env),
        SymExpr::Mul(l, r) => smul(ev(*l, env), ev(*r, env)),
        SymExpr::Div(l, r) => tdiv(ev(*l, env), ev(*r, env)),
        SymExpr::DivCeil(l, r) => cdiv(ev(*l, env), ev(*r, env)),
        SymExpr::Max(l, r) => imax(ev(*l, env), ev(*r, env)),
        SymExpr::Min(l, r) => imin(ev(*l, env), ev(*r, env)),
        SymExpr::Broadcast(l, r) => imax(ev(*l, env), ev(*r, env)),
        SymExpr::Neg(x) => -ev(*x, env),
    }
}

/// Mask configuration (template parameters, see unit config "subst"): which of the
/// known-finding classes are excluded from the obligation.
pub open spec fn mask_f1() -> bool { @@F1@@ }
pub open spec fn mask_f2() -> bool { @@F2@@ }
pub open spec fn mask_f3() -> bool { @@F3@@ }

pub open spec fn divceil_side(d: int) -> bool { if mask_f2() { d > 0 } else { d != 0 } }

pub open spec fn bcast_side(a: int, b: int) -> bool {
    // (unmasked: operands >= 0, the documented meaning of the variant and the premise under
    // which U-symexpr proves range/is_positive)
    if mask_f3() { a >= 1 && b >= 1 && (a == b || a == 1 || b == 1) } else { a >= 0 && b >= 0 }
}

/// "evaluates without division by zero" over the integers (+ the mask side conditions).
pub open spec fn okw(e: SymExpr, env: Env) -> bool
    decreases e
{
    match e {
        SymExpr::Value(x) => true,
        SymExpr::Var(sym) => true,
        SymExpr::Add(l, r) | SymExpr::Sub(l, r) | SymExpr::Mul(l, r)
        | SymExpr::Max(l, r) | SymExpr::Min(l, r) => okw(*l, env) && okw(*r, env),
        SymExpr::Div(l, r) => okw(*l, env) && okw(*r, env) && ev(*r, env) != 0,
        SymExpr::DivCeil(l, r) => okw(*l, env) && okw(*r, env) && divceil_side(ev(*r, env)),
        SymExpr::Broadcast(l, r) =>
            okw(*l, env) && okw(*r, env) && bcast_side(ev(*l, env), ev(*r, env)),
        SymExpr::Neg(x) => okw(*x, env),
    }
}

/// "evaluates without division by zero or overflow" under an admissible assignment: okw +
/// every node's value is an i32 + symbols declared positive are >= 0.
pub open spec fn okp(e: SymExpr, env: Env) -> bool
    decreases e
{
    &&& in_i32(ev(e, env))
    &&& match e {
        SymExpr::Value(x) => true,
        SymExpr::Var(sym) => sym.positive ==> env[sym.name@] >= 0,
        SymExpr::Add(l, r) | SymExpr::Sub(l, r) | SymExpr::Mul(l, r)
        | SymExpr::Max(l, r) | SymExpr::Min(l, r) => okp(*l, env) && okp(*r, env),
        SymExpr::Div(l, r) => okp(*l, env) && okp(*r, env) && ev(*r, env) != 0,
        SymExpr::DivCeil(l, r) => okp(*l, env) && okp(*r, env) && divceil_side(ev(*r, env)),
        SymExpr::Broadcast(l, r) =>
            okp(*l, env) && okp(*r, env) && bcast_side(ev(*l, env), ev(*r, env)),
        SymExpr::Neg(x) => okp(*x, env),
    }
}

/// What is demanded of a result: with F1 masked only well-definedness over the integers,
/// otherwise that it evaluates without overflow as well.
pub open spec fn good(r: SymExpr, env: Env) -> bool {
    if mask_f1() { okw(r, env) } else { okp(r, env) }
}

/// The property for one call: same value wherever the original evaluates.
pub open spec fn preserves(e: SymExpr, r: SymExpr) -> bool {
    forall|env: Env| #[trigger] okp(e, env) ==> good(r, env) && ev(r, env) == ev(e, env)
}

pub open spec fn satisfiable(e: SymExpr) -> bool {
    exists|env: Env| #[trigger] okp(e, env)
}

/// a == b (SymExpr's structural equality up to commutation of Add/Mul/Max/Min/Broadcast
/// operands, symbols compared by name only) => same value under every assignment.
pub open spec fn same_meaning(a: SymExpr, b: SymExpr) -> bool {
    forall|env: Env| #![trigger ev(a, env)] #![trigger ev(b, env)] ev(a, env) == ev(b, env)
}

// ---------------------------------------------------------------- unfolding hints
pub open spec fn child_l(e: SymExpr) -> SymExpr {
    match e {
        SymExpr::Add(l, r) | SymExpr::Sub(l, r) | SymExpr::Mul(l, r) | SymExpr::Div(l, r)
        | SymExpr::DivCeil(l, r) | SymExpr::Max(l, r) | SymExpr::Min(l, r) | SymExpr::Broadcast(l, r) => *l,
        SymExpr::Neg(x) => *x,
        _ => e,
    }
}
pub open spec fn child_r(e: SymExpr) -> SymExpr {
    match e {
        SymExpr::Add(l, r) | SymExpr::Sub(l, r) | SymExpr::Mul(l, r) | SymExpr::Div(l, r)
        | SymExpr::DivCeil(l, r) | SymExpr::Max(l, r) | SymExpr::Min(l, r) | SymExpr::Broadcast(l, r) => *r,
        _ => e,
    }
}
pub broadcast proof fn lemma_unfold_okp(e: SymExpr, env: Env)
    requires #[trigger] okp(e, env)
    ensures
        in_i32(ev(e, env)),
        okw(e, env),
        match e {
            SymExpr::Value(x) => ev(e, env) == x as int,
            SymExpr::Var(sym) => ev(e, env) == env[sym.name@] && (sym.positive ==> ev(e, env) >= 0),
            SymExpr::Add(l, r) => okp(*l, env) && okp(*r, env) && ev(e, env) == ev(*l, env) + ev(*r, env),
            SymExpr::Sub(l, r) => okp(*l, env) && okp(*r, env) && ev(e, env) == ev(*l, env) - ev(*r, env),
            SymExpr::Mul(l, r) => okp(*l, env) && okp(*r, env) && ev(e, env) == smul(ev(*l, env), ev(*r, env)),
            SymExpr::Div(l, r) => okp(*l, env) && okp(*r, env) && ev(*r, env) != 0 && ev(e, env) == tdiv(ev(*l, env), ev(*r, env)),
            SymExpr::DivCeil(l, r) => okp(*l, env) && okp(*r, env) && divceil_side(ev(*r, env)) && ev(e, env) == cdiv(ev(*l, env), ev(*r, env)),
            SymExpr::Max(l, r) => okp(*l, env) && okp(*r, env) && ev(e, env) == imax(ev(*l, env), ev(*r, env)),
            SymExpr::Min(l, r) => okp(*l, env) && okp(*r, env) && ev(e, env) == imin(ev(*l, env), ev(*r, env)),
            SymExpr::Broadcast(l, r) => okp(*l, env) && okp(*r, env) && bcast_side(ev(*l, env), ev(*r, env))
                && ev(e, env) == imax(ev(*l, env), ev(*r, env)),
            SymExpr::Neg(x) => okp(*x, env) && ev(e, env) == -ev(*x, env),
        },
    decreases e
{
    match e {
        SymExpr::Value(x) => {},
        SymExpr::Var(sym) => {},
        SymExpr::Neg(x) => { lemma_unfold_okp(child_l(e), env); },
        _ => { lemma_unfold_okp(child_l(e), env); lemma_unfold_okp(child_r(e), env); },
    }
}

pub broadcast proof fn lemma_unfold_okw(e: SymExpr, env: Env)
    requires #[trigger] okw(e, env)
    ensures
        match e {
            SymExpr::Value(x) => ev(e, env) == x as int,
            SymExpr::Var(sym) => true,
            SymExpr::Add(l, r) => okw(*l, env) && okw(*r, env) && ev(e, env) == ev(*l, env) + ev(*r, env),
            SymExpr::Sub(l, r) => okw(*l, env) && okw(*r, env) && ev(e, env) == ev(*l, env) - ev(*r, env),
            SymExpr::Mul(l, r) => okw(*l, env) && okw(*r, env) && ev(e, env) == smul(ev(*l, env), ev(*r, env)),
            SymExpr::Div(l, r) => okw(*l, env) && okw(*r, env) && ev(*r, env) != 0 && ev(e, env) == tdiv(ev(*l, env), ev(*r, env)),
            SymExpr::DivCeil(l, r) => okw(*l, env) && okw(*r, env) && divceil_side(ev(*r, env)) && ev(e, env) == cdiv(ev(*l, env), ev(*r, env)),
            SymExpr::Max(l, r) => okw(*l, env) && okw(*r, env) && ev(e, env) == imax(ev(*l, env), ev(*r, env)),
            SymExpr::Min(l, r) => okw(*l, env) && okw(*r, env) && ev(e, env) == imin(ev(*l, env), ev(*r, env)),
            SymExpr::Broadcast(l, r) => okw(*l, env) && okw(*r, env) && bcast_side(ev(*l, env), ev(*r, env))
                && ev(e, env) == imax(ev(*l, env), ev(*r, env)),
            SymExpr::Neg(x) => okw(*x, env) && ev(e, env) == -ev(*x, env),
        },
{
}

/// Folding hints for the two-level terms the code constructs (`x / Value(c)`, `x / (c1 * c2)`,
/// `x.div_ceil(..)`): the default fuel unfolds okw/okp/ev once and leaves the operands as
/// fuel-indexed calls; these restate one unfolding step of a constructor application in
/// user-level terms (which can be unfolded once more).
pub broadcast proof fn lemma_fold_mul(a: Arc<SymExpr>, b: Arc<SymExpr>, env: Env)
    ensures
        #![trigger okw(SymExpr::Mul(a, b), env)]
        #![trigger okp(SymExpr::Mul(a, b), env)]
        #![trigger ev(SymExpr::Mul(a, b), env)]
        okw(SymExpr::Mul(a, b), env) == (okw(*a, env) && okw(*b, env)),
        okp(SymExpr::Mul(a, b), env) == (okp(*a, env) && okp(*b, env) && in_i32(smul(ev(*a, env), ev(*b, env)))),
        ev(SymExpr::Mul(a, b), env) == smul(ev(*a, env), ev(*b, env)),
{
}

pub broadcast proof fn lemma_fold_div(a: Arc<SymExpr>, b: Arc<SymExpr>, env: Env)
    ensures
        #![trigger okw(SymExpr::Div(a, b), env)]
        #![trigger okp(SymExpr::Div(a, b), env)]
        #![trigger ev(SymExpr::Div(a, b), env)]
        okw(SymExpr::Div(a, b), env) == (okw(*a, env) && okw(*b, env) && ev(*b, env) != 0),
        okp(SymExpr::Div(a, b), env) == (okp(*a, env) && okp(*b, env) && ev(*b, env) != 0
            && in_i32(tdiv(ev(*a, env), ev(*b, env)))),
        ev(SymExpr::Div(a, b), env) == tdiv(ev(*a, env), ev(*b, env)),
{
}

pub broadcast proof fn lemma_fold_divceil(a: Arc<SymExpr>, b: Arc<SymExpr>, env: Env)
    ensures
        #![trigger okw(SymExpr::DivCeil(a, b), env)]
        #![trigger okp(SymExpr::DivCeil(a, b), env)]
        #![trigger ev(SymExpr::DivCeil(a, b), env)]
        okw(SymExpr::DivCeil(a, b), env) == (okw(*a, env) && okw(*b, env) && divceil_side(ev(*b, env))),
        okp(SymExpr::DivCeil(a, b), env) == (okp(*a, env) && okp(*b, env) && divceil_side(ev(*b, env))
            && in_i32(cdiv(ev(*a, env), ev(*b, env)))),
        ev(SymExpr::DivCeil(a, b), env) == cdiv(ev(*a, env), ev(*b, env)),
{
}

// ---------------------------------------------------------------- multiplication / division facts
pub broadcast proof fn lemma_smul_one_l(b: int)
    ensures #[trigger] smul(1, b) == b
{ reveal(smul); }

pub broadcast proof fn lemma_smul_one_r(a: int)
    ensures #[trigger] smul(a, 1) == a
{ reveal(smul); }

/// Connects a machine product appearing in the code (`x * y`, `checked_mul`) to smul.
pub broadcast proof fn lemma_mul_smul(a: int, b: int)
    ensures #[trigger] (a * b) == smul(a, b)
{ reveal(smul); }

pub broadcast proof fn lemma_tdiv_one(x: int)
    ensures #[trigger] tdiv(x, 1) == x
{
    reveal(tdiv);
}

pub broadcast proof fn lemma_cdiv_one(x: int)
    ensures #[trigger] cdiv(x, 1) == x
{
    reveal(cdiv);
}

pub broadcast proof fn lemma_cdiv_self(v: int)
    requires v != 0
    ensures #[trigger] cdiv(v, v) == 1
{
    reveal(cdiv);
    if v > 0 {
        assert((-v) / v == -1) by (nonlinear_arith) requires v > 0;
    } else {
        assert(v / (-v) == -1) by (nonlinear_arith) requires v < 0;
    }
}

pub proof fn lemma_div_negdiv(a: int, d: int)
    requires a >= 0, d > 0
    ensures a / (-d) == -(a / d)
{
    assert(a / (-d) == -(a / d)) by (nonlinear_arith) requires a >= 0, d > 0;
}

/// Relates tdiv to the machine division of two i32 values as Verus specifies it (used where the
/// code folds `Value(x) / Value(y)` into `Value(x / y)`).
pub broadcast proof fn lemma_tdiv_exec(x: i32, y: i32)
    requires y != 0
    ensures
        in_i32(#[trigger] tdiv(x as int, y as int)) ==> !(x == i32::MIN && y == -1),
        tdiv(x as int, y as int) == (
            if x == 0 { 0 } else if x > 0 { x as int / y as int } else { -((-x as int) / y as int) }),
{
    reveal(tdiv);
    if y < 0 {
        if x >= 0 { lemma_div_negdiv(x as int, -y as int); } else { lemma_div_negdiv(-x as int, -y as int); }
    }
}

/// floor(floor(n / b) / c) == floor(n / (b * c)) for b, c > 0 and any n.
pub proof fn lemma_floor_floor(n: int, b: int, c: int)
    requires b > 0, c > 0
    ensures b * c > 0, (n / b) / c == n / (b * c)
{
    let q1 = n / b; let r1 = n % b;
    let q2 = q1 / c; let r2 = q1 % c;
    vstd::arithmetic::div_mod::lemma_fundamental_div_mod(n, b);
    vstd::arithmetic::div_mod::lemma_fundamental_div_mod(q1, c);
    vstd::arithmetic::div_mod::lemma_mod_bound(n, b);
    vstd::arithmetic::div_mod::lemma_mod_bound(q1, c);
    assert(b * c > 0) by (nonlinear_arith) requires b > 0, c > 0;
    let r = r2 * b + r1;
    assert(0 <= r < b * c) by (nonlinear_arith) requires 0 <= r1 < b, 0 <= r2 < c, r == r2 * b + r1, b > 0, c > 0;
    assert(n == q2 * (b * c) + r) by (nonlinear_arith)
        requires n == b * q1 + r1, q1 == c * q2 + r2, r == r2 * b + r1;
    vstd::arithmetic::div_mod::lemma_fundamental_div_mod_converse(n, b * c, q2, r);
}

/// x / b / c == x / (b * c) for truncating division and any non-zero b, c.
pub broadcast proof fn lemma_tdiv_tdiv(x: int, b: int, c: int)
    requires b != 0, c != 0
    ensures smul(b, c) != 0, #[trigger] tdiv(tdiv(x, b), c) == tdiv(x, smul(b, c))
{
    reveal(tdiv); reveal(smul);
    let ax = if x >= 0 { x } else { -x };
    let ab = if b > 0 { b } else { -b };
    let ac = if c > 0 { c } else { -c };
    lemma_floor_floor(ax, ab, ac);
    assert(ax / ab >= 0) by (nonlinear_arith) requires ax >= 0, ab > 0;
    assert((ax / ab) / ac >= 0) by (nonlinear_arith) requires ax / ab >= 0, ac > 0;
    assert(b * c != 0) by (nonlinear_arith) requires b != 0, c != 0;
    if (b > 0) == (c > 0) {
        assert(b * c == ab * ac) by (nonlinear_arith) requires (b > 0) == (c > 0), b != 0, c != 0,
            ab == if b > 0 { b } else { -b }, ac == if c > 0 { c } else { -c };
    } else {
        assert(-(b * c) == ab * ac) by (nonlinear_arith) requires (b > 0) != (c > 0), b != 0, c != 0,
            ab == if b > 0 { b } else { -b }, ac == if c > 0 { c } else { -c };
    }
}

/// ceil(ceil(x / b) / c) == ceil(x / (b * c)) for b, c > 0.
pub broadcast proof fn lemma_cdiv_cdiv(x: int, b: int, c: int)
    requires b > 0, c > 0
    ensures smul(b, c) > 0, #[trigger] cdiv(cdiv(x, b), c) == cdiv(x, smul(b, c))
{
    reveal(cdiv); reveal(smul);
    lemma_floor_floor(-x, b, c);
}


