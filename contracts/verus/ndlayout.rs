// Unit U-ndlayout-v: NdLayout<N>::{index_valid, offset_unchecked, offset} (rten-tensor/src/layout.rs),
// verbatim bodies with loop-invariant overlays, for EVERY rank N (const generic, unbounded).
use vstd::prelude::*;

verus! {

//@extract kind=struct file=rten-tensor/src/layout.rs name=NdLayout

// ---------------------------------------------------------------- reference semantics
/// sum_{i < k} index[i] * strides[i] over the integers
pub open spec fn dot(index: Seq<usize>, strides: Seq<usize>, k: int) -> int
    decreases k
{
    if k <= 0 { 0 } else { dot(index, strides, k - 1) + (index[k - 1] as int) * (strides[k - 1] as int) }
}

pub open spec fn all_lt(index: Seq<usize>, shape: Seq<usize>, k: int) -> bool
    decreases k
{
    if k <= 0 { true } else { all_lt(index, shape, k - 1) && index[k - 1] < shape[k - 1] }
}

/// sum_{i < k} (shape[i] - 1) * strides[i]: the largest reachable offset (non-empty layouts)
pub open spec fn max_dot(shape: Seq<usize>, strides: Seq<usize>, k: int) -> int
    decreases k
{
    if k <= 0 { 0 } else { max_dot(shape, strides, k - 1) + (shape[k - 1] as int - 1) * (strides[k - 1] as int) }
}

/// An in-bounds index never maps beyond the largest reachable offset (monotonicity, by induction).
pub proof fn lemma_dot_le_max(index: Seq<usize>, shape: Seq<usize>, strides: Seq<usize>, k: int)
    requires 0 <= k <= index.len(), k <= shape.len(), k <= strides.len(), all_lt(index, shape, k)
    ensures 0 <= dot(index, strides, k) <= max_dot(shape, strides, k)
    decreases k
{
    if k > 0 {
        lemma_dot_le_max(index, shape, strides, k - 1);
        let i = index[k - 1] as int; let s = shape[k - 1] as int; let st = strides[k - 1] as int;
        assert(0 <= i * st <= (s - 1) * st) by (nonlinear_arith) requires 0 <= i <= s - 1, st >= 0;
    }
}

pub proof fn lemma_dot_mono(index: Seq<usize>, strides: Seq<usize>, j: int, k: int)
    requires 0 <= j <= k <= index.len(), k <= strides.len()
    ensures 0 <= dot(index, strides, j) <= dot(index, strides, k)
    decreases k - j
{
    if j < k {
        lemma_dot_mono(index, strides, j, k - 1);
        let i = index[k - 1] as int; let st = strides[k - 1] as int;
        assert(0 <= i * st) by (nonlinear_arith) requires 0 <= i, st >= 0;
    } else {
        lemma_dot_nonneg(index, strides, j);
    }
}

pub proof fn lemma_dot_nonneg(index: Seq<usize>, strides: Seq<usize>, k: int)
    requires 0 <= k <= index.len(), k <= strides.len()
    ensures 0 <= dot(index, strides, k)
    decreases k
{
    if k > 0 {
        lemma_dot_nonneg(index, strides, k - 1);
        let i = index[k - 1] as int; let st = strides[k - 1] as int;
        assert(0 <= i * st) by (nonlinear_arith) requires 0 <= i, st >= 0;
    }
}

pub broadcast proof fn lemma_dot_le_max_b(index: Seq<usize>, shape: Seq<usize>, strides: Seq<usize>, k: int)
    requires 0 <= k <= index.len(), k <= shape.len(), k <= strides.len(), #[trigger] all_lt(index, shape, k)
    ensures 0 <= dot(index, strides, k) <= #[trigger] max_dot(shape, strides, k)
{
    lemma_dot_le_max(index, shape, strides, k);
}

/// One unfolding step plus monotonicity towards any later bound, in user-level terms.
pub broadcast proof fn lemma_dot_step_b(index: Seq<usize>, strides: Seq<usize>, j: int, k: int)
    requires 0 <= j < k <= index.len(), k <= strides.len()
    ensures
        #![trigger dot(index, strides, j), dot(index, strides, k)]
        dot(index, strides, j + 1) == dot(index, strides, j) + (index[j] as int) * (strides[j] as int),
        0 <= dot(index, strides, j),
        0 <= (index[j] as int) * (strides[j] as int),
        dot(index, strides, j + 1) <= dot(index, strides, k),
{
    lemma_dot_nonneg(index, strides, j);
    lemma_dot_mono(index, strides, j + 1, k);
    let i = index[j] as int; let st = strides[j] as int;
    assert(0 <= i * st) by (nonlinear_arith) requires 0 <= i, st >= 0;
}

/// `is_valid_permutation` uses iterator adaptors (outside Verus' subset). Its contract is ASSUMED
/// here: true exactly for permutations of 0..ndim; in particular every entry is < ndim. It is
/// checked by the bounded Kani harness U-layout:NdLayout::permuted+transposed.model.
pub open spec fn valid_perm(ndim: int, p: Seq<usize>) -> bool {
    &&& p.len() == ndim
    &&& forall|i: int| 0 <= i < ndim ==> (#[trigger] p[i]) < ndim
    &&& forall|i: int, j: int| 0 <= i < j < ndim ==> p[i] != p[j]
}

#[verifier::external_body]
pub fn is_valid_permutation(ndim: usize, permutation: &[usize]) -> (r: bool)
    ensures r == valid_perm(ndim as int, permutation@)
{ unimplemented!() }

// ---------------------------------------------------------------- array_offsets (tensor.rs)
/// Offset of the index `base` moved `i` steps along dimension `d`.
pub open spec fn arr_off(base: Seq<usize>, strides: Seq<usize>, n: int, d: int, i: int) -> int {
    dot(base.update(d, (base[d] + i) as usize), strides, n)
}

pub proof fn lemma_dot_update(index: Seq<usize>, strides: Seq<usize>, k: int, d: int, v: usize)
    requires 0 <= d < index.len(), 0 <= k <= index.len(), k <= strides.len()
    ensures dot(index.update(d, v), strides, k)
        == dot(index, strides, k) + (if d < k { (v as int - index[d] as int) * (strides[d] as int) } else { 0 })
    decreases k
{
    if k > 0 {
        lemma_dot_update(index, strides, k - 1, d, v);
        if d == k - 1 {
            let a = v as int; let b = index[d] as int; let st = strides[d] as int;
            assert(a * st == b * st + (a - b) * st) by (nonlinear_arith);
        }
    }
}

pub proof fn lemma_all_lt_update(index: Seq<usize>, shape: Seq<usize>, k: int, d: int, v: usize)
    requires 0 <= d < index.len(), 0 <= k <= index.len(), k <= shape.len(), all_lt(index, shape, k), v < shape[d]
    ensures all_lt(index.update(d, v), shape, k)
    decreases k
{
    if k > 0 { lemma_all_lt_update(index, shape, k - 1, d, v); }
}

pub proof fn lemma_all_lt_at(index: Seq<usize>, shape: Seq<usize>, k: int, d: int)
    requires 0 <= d < k <= index.len(), k <= shape.len(), all_lt(index, shape, k)
    ensures index[d] < shape[d]
    decreases k
{
    if d < k - 1 { lemma_all_lt_at(index, shape, k - 1, d); }
}

/// All facts array_offsets needs about its i-th result, in one place.
pub broadcast proof fn lemma_arr_off_b(base: Seq<usize>, shape: Seq<usize>, strides: Seq<usize>, n: int, d: int, i: int)
    requires
        n == base.len(), n == shape.len(), n == strides.len(), 0 <= d < n, all_lt(base, shape, n),
        0 <= i, base[d] + i < shape[d],
    ensures
        #![trigger arr_off(base, strides, n, d, i), all_lt(base, shape, n)]
        arr_off(base, strides, n, d, i) == dot(base, strides, n) + i * (strides[d] as int),
        0 <= i * (strides[d] as int),
        all_lt(base.update(d, (base[d] + i) as usize), shape, n),
        0 <= arr_off(base, strides, n, d, i) <= max_dot(shape, strides, n),
{
    let v = (base[d] + i) as usize;
    lemma_dot_update(base, strides, n, d, v);
    lemma_all_lt_update(base, shape, n, d, v);
    lemma_dot_le_max(base.update(d, v), shape, strides, n);
    assert(0 <= i * (strides[d] as int)) by (nonlinear_arith) requires 0 <= i, strides[d] >= 0;
}

// ---------------------------------------------------------------- code under contract
pub mod code {
use super::*;
broadcast use {lemma_dot_le_max_b, lemma_dot_step_b, lemma_arr_off_b};

impl<const N: usize> NdLayout<N> {
    //@extract kind=fn file=rten-tensor/src/layout.rs within="impl<const N: usize> NdLayout<N>" name=index_valid
    //@| ensures r == all_lt(index@, self.shape@, N as int), // @ob:index_valid.exact
    //@loop 0
    //@| invariant valid == all_lt(index@, self.shape@, i as int), 0 <= i <= N,

    //@extract kind=fn file=rten-tensor/src/layout.rs within="impl<const N: usize> Layout for NdLayout<N>" name=offset_unchecked
    //@| requires dot(index@, self.strides@, N as int) <= usize::MAX   // offsets of this index are representable
    //@| ensures r as int == dot(index@, self.strides@, N as int), // @ob:offset_unchecked.exact
    //@loop 0
    //@| invariant
    //@|     offset as int == dot(index@, self.strides@, i as int), 0 <= i <= N,
    //@|     dot(index@, self.strides@, N as int) <= usize::MAX,

    //@extract kind=fn file=rten-tensor/src/layout.rs within="impl<const N: usize> MutLayout for NdLayout<N>" name=permuted
    //@| requires valid_perm(N as int, dims@)   // documented: panics on an invalid permutation
    //@| ensures forall|i: int| 0 <= i < N ==> r.shape@[i] == self.shape@[dims@[i] as int] && r.strides@[i] == self.strides@[dims@[i] as int], // @ob:permuted.gathers_dims
    //@loop 0
    //@| invariant 0 <= i <= N, forall|k: int| 0 <= k < N ==> (#[trigger] dims@[k]) < N,
    //@|     forall|k: int| 0 <= k < i ==> shape@[k] == self.shape@[dims@[k] as int] && strides@[k] == self.strides@[dims@[k] as int],

    //@extract kind=fn file=rten-tensor/src/layout.rs within="impl<const N: usize> Layout for NdLayout<N>" name=offset
    //@| requires max_dot(self.shape@, self.strides@, N as int) <= usize::MAX   // layout invariant: max offset representable
    //@| ensures
    //@|     r is Some <==> all_lt(index@, self.shape@, N as int), // @ob:offset.some_iff_in_bounds
    //@|     r is Some ==> r.unwrap() as int == dot(index@, self.strides@, N as int)
    //@|         && r.unwrap() as int <= max_dot(self.shape@, self.strides@, N as int), // @ob:offset.exact_and_bounded

    //@extract kind=fn file=rten-tensor/src/layout.rs within="impl<const N: usize> MutLayout for NdLayout<N>" name=resize_dim
    //@| requires dim < N   // indexing panics otherwise
    //@| ensures final(self).shape@ == old(self).shape@.update(dim as int, size), final(self).strides == old(self).strides, // @ob:resize_dim.only_that_size

    //@extract kind=fn file=rten-tensor/src/layout.rs within="impl<const N: usize> Layout for NdLayout<N>" name=strides
    //@| ensures r == self.strides, // @ob:strides.exact

    //@extract kind=fn file=rten-tensor/src/layout.rs within="impl<const N: usize> Layout for NdLayout<N>" name=ndim
    //@| ensures r == N, // @ob:ndim.exact
}

/// `Layout::size` / `Layout::stride` (default methods: `.get(dim).expect(..)` on the shape/stride
/// arrays) and `LayoutExt::must_offset` (`self.offset(index).unwrap_or_else(|| panic!(..))`:
/// a closure that panics, outside Verus' subset) are ASSUMED to return only for valid arguments,
/// with the value of the corresponding entry / of `offset`. (must_offset's "panics when out of
/// bounds" is additionally covered by the bounded U-tensor-ctor get/index harnesses.)
impl<const N: usize> NdLayout<N> {
    #[verifier::external_body]
    fn size(&self, dim: usize) -> (r: usize)
        ensures dim < N, r == self.shape@[dim as int]
    { unimplemented!() }

    #[verifier::external_body]
    fn stride(&self, dim: usize) -> (r: usize)
        ensures dim < N, r == self.strides@[dim as int]
    { unimplemented!() }

    #[verifier::external_body]
    fn must_offset(&self, index: [usize; N]) -> (r: usize)
        requires max_dot(self.shape@, self.strides@, N as int) <= usize::MAX
        ensures all_lt(index@, self.shape@, N as int), r as int == dot(index@, self.strides@, N as int)
    { unimplemented!() }
}

impl NdLayout<2> {
    //@extract kind=fn file=rten-tensor/src/layout.rs within="impl MatrixLayout for NdLayout<2>" name=rows
    //@| ensures r == self.shape@[0], // @ob:rows.exact
    //@extract kind=fn file=rten-tensor/src/layout.rs within="impl MatrixLayout for NdLayout<2>" name=cols
    //@| ensures r == self.shape@[1], // @ob:cols.exact
    //@extract kind=fn file=rten-tensor/src/layout.rs within="impl MatrixLayout for NdLayout<2>" name=row_stride
    //@| ensures r == self.strides@[0], // @ob:row_stride.exact
    //@extract kind=fn file=rten-tensor/src/layout.rs within="impl MatrixLayout for NdLayout<2>" name=col_stride
    //@| ensures r == self.strides@[1], // @ob:col_stride.exact
}

//@extract kind=fn file=rten-tensor/src/tensor.rs name=array_offsets
//@| requires
//@|     max_dot(layout.shape@, layout.strides@, N as int) <= usize::MAX,   // layout invariant
//@|     dim < N, base[dim as int] < usize::MAX - M, layout.shape@[dim as int] >= base[dim as int] + M,   // the function's own assert!
//@| ensures
//@|     forall|i: int| 0 <= i < M ==> (#[trigger] r@[i]) as int == arr_off(base@, layout.strides@, N as int, dim as int, i)
//@|         && all_lt(base@.update(dim as int, (base@[dim as int] + i) as usize), layout.shape@, N as int)
//@|         && r@[i] as int <= max_dot(layout.shape@, layout.strides@, N as int), // @ob:array_offsets.offsets_of_in_bounds_indices
//@loop 0
//@| invariant
//@|     0 <= i <= M, dim < N, all_lt(base@, layout.shape@, N as int),
//@|     offset as int == dot(base@, layout.strides@, N as int), stride == layout.strides@[dim as int],
//@|     base@[dim as int] + M <= layout.shape@[dim as int],
//@|     max_dot(layout.shape@, layout.strides@, N as int) <= usize::MAX,
//@|     forall|k: int| 0 <= k < M ==> offset as int + #[trigger] (k * (stride as int)) == arr_off(base@, layout.strides@, N as int, dim as int, k)
//@|         && 0 <= k * (stride as int) && arr_off(base@, layout.strides@, N as int, dim as int, k) <= max_dot(layout.shape@, layout.strides@, N as int),
//@|     forall|k: int| 0 <= k < i ==> (#[trigger] offsets@[k]) as int == arr_off(base@, layout.strides@, N as int, dim as int, k),
} // mod code

} // verus!
fn main() {}
