// Unit U-header-v: Header::from_buf (rten-model-file/src/header.rs), verbatim body, for buffers of
// EVERY length. The private ValueReader is replaced by a trusted stand-in whose `read*` return an
// arbitrary value or None (its real methods use slice `get(range)` / `try_into` / a LeBytes trait,
// outside Verus' subset; they are exercised by the bounded Kani unit U-header).
use vstd::prelude::*;

verus! {

//@extract kind=enum file=rten-model-file/src/header.rs name=HeaderError

//@extract kind=struct file=rten-model-file/src/header.rs name=Header

pub struct ValueReader<'a> { pub pos: usize, pub buf: &'a [u8] }

pub trait LeBytes: Sized {}
impl LeBytes for u32 {}
impl LeBytes for u64 {}

impl<'a> ValueReader<'a> {
    #[verifier::external_body]
    pub fn new(buf: &'a [u8]) -> (r: Self) { unimplemented!() }

    #[verifier::external_body]
    pub fn read_n<const N: usize>(&mut self) -> (r: Option<[u8; N]>) { unimplemented!() }

    #[verifier::external_body]
    pub fn read<T: LeBytes>(&mut self) -> (r: Option<T>) { unimplemented!() }
}

impl Header {
    //@extract kind=const file=rten-model-file/src/header.rs within="impl Header" name=LEN

    //@extract kind=fn file=rten-model-file/src/header.rs within="impl Header" name=from_buf
    //@| requires buf@.len() <= isize::MAX   // Rust's guarantee for every slice (size in bytes <= isize::MAX)
    //@| ensures
    //@|     r matches Ok(h) ==> h.version == 2
    //@|         && 32 <= h.model_offset <= buf@.len()
    //@|         && h.model_offset + h.model_len <= buf@.len()
    //@|         && 32 <= h.tensor_data_offset <= buf@.len(), // @ob:from_buf.segments_within_file
}

} // verus!
fn main() {}
