// Unit U-bresham-v: BreshamPoints::{new,next} (rten-imageproc/src/drawing.rs), the point generator
// behind draw_line (width 1) and draw_polygon. Verbatim bodies, every line with coordinates in
// [-2^28, 2^28]: each yielded point lies inside the line's bounding box, and exactly
// max(|dx|, |dy|) points are yielded.
use vstd::prelude::*;

verus! {

/// Stand-ins for `Point<i32>` / `Line<i32>` (rten-imageproc/src/shapes.rs: the real types are
/// generic over a `Coord` trait with a default parameter; same public fields).
#[derive(Clone, Copy)]
pub struct Point { pub x: i32, pub y: i32 }
#[derive(Clone, Copy)]
pub struct Line { pub start: Point, pub end: Point }

//@extract kind=struct file=rten-imageproc/src/drawing.rs name=BreshamPoints

// ---------------------------------------------------------------- trusted std specifications
pub open spec fn iabs(x: int) -> int { if x < 0 { -x } else { x } }
pub open spec fn isgn(x: int) -> int { if x < 0 { -1 } else if x == 0 { 0 } else { 1 } }

pub assume_specification [i32::abs] (x: i32) -> (r: i32)
    requires x > i32::MIN
    ensures r as int == iabs(x as int);

pub assume_specification [i32::signum] (x: i32) -> (r: i32)
    ensures r as int == isgn(x as int);

// ---------------------------------------------------------------- spec
pub const LIM: i32 = 0x1000_0000;   // 2^28

pub open spec fn coords_ok(l: Line) -> bool {
    -LIM <= l.start.x <= LIM && -LIM <= l.start.y <= LIM && -LIM <= l.end.x <= LIM && -LIM <= l.end.y <= LIM
}
pub open spec fn ddx(l: Line) -> int { iabs(l.end.x - l.start.x) }
pub open spec fn ddy(l: Line) -> int { iabs(l.end.y - l.start.y) }
pub open spec fn nsteps(l: Line) -> int { if ddx(l) >= ddy(l) { ddx(l) } else { ddy(l) } }

pub open spec fn in_bbox(p: Point, l: Line) -> bool {
    &&& (if l.start.x <= l.end.x { l.start.x <= p.x <= l.end.x } else { l.end.x <= p.x <= l.start.x })
    &&& (if l.start.y <= l.end.y { l.start.y <= p.y <= l.end.y } else { l.end.y <= p.y <= l.start.y })
}

/// step * k for step in {-1, 0, 1}, without a product
pub open spec fn sm(step: int, k: int) -> int { if step == 1 { k } else if step == -1 { -k } else { 0 } }

/// a * b, opaque (products of two variables: the closed form of the Bresenham error term)
#[verifier::opaque]
pub open spec fn pm(a: int, b: int) -> int { a * b }

pub broadcast proof fn lemma_pm_succ(a: int, b: int, c: int)
    ensures #![trigger pm(a, b), pm(a, c)] c == b + 1 ==> pm(a, c) == pm(a, b) + a
{
    reveal(pm);
    if c == b + 1 { assert(a * (b + 1) == a * b + a) by (nonlinear_arith); }
}

pub broadcast proof fn lemma_pm_zero(a: int)
    ensures #[trigger] pm(a, 0) == 0
{ reveal(pm); }

pub broadcast proof fn lemma_pm_one(a: int)
    ensures #[trigger] pm(a, 1) == a
{ reveal(pm); }

/// If the error term is non-negative before step k+1 <= major, the minor coordinate has not yet
/// reached its extent: 2*maj*m <= 2*min*(k+1) - maj  and  k+1 <= maj  ==>  m < min.
pub broadcast proof fn lemma_minor_bound(maj: int, min: int, k1: int, m: int)
    requires maj > 0, min >= 0, 0 <= k1 <= maj, m >= 0, pm(2 * min, k1) - maj - pm(2 * maj, m) >= 0
    ensures #![trigger pm(2 * min, k1), pm(2 * maj, m)] m < min
{
    reveal(pm);
    assert((2 * min) * k1 <= (2 * min) * maj) by (nonlinear_arith) requires k1 <= maj, min >= 0;
    assert((2 * maj) * m < (2 * maj) * min) by (nonlinear_arith)
        requires (2 * maj) * m <= (2 * min) * k1 - maj, (2 * min) * k1 <= (2 * min) * maj, maj > 0;
    assert(m < min) by (nonlinear_arith) requires (2 * maj) * m < (2 * maj) * min, maj > 0;
}

impl BreshamPoints {
    /// steps taken so far
    pub closed spec fn k(&self, l: Line) -> int { nsteps(l) - self.remaining_steps }

    /// Representation invariant relative to the line `l` the iterator was created from.
    pub closed spec fn inv(&self, l: Line) -> bool {
        let k = self.k(l);
        let (sx, sy) = (l.start.x as int, l.start.y as int);
        let (dx, dy) = (ddx(l), ddy(l));
        &&& coords_ok(l)
        &&& 0 <= k <= nsteps(l)
        &&& self.dx == 2 * dx && self.dy == 2 * dy
        &&& self.x_step == isgn(l.end.x - l.start.x) && self.y_step == isgn(l.end.y - l.start.y)
        // redundant facts that save the solver case splits
        &&& 0 <= dx <= 2 * LIM && 0 <= dy <= 2 * LIM
        &&& (self.x_step == 0 <==> dx == 0) && (self.y_step == 0 <==> dy == 0)
        &&& (self.x_step == 1 ==> l.end.x == sx + dx) && (self.x_step == -1 ==> l.end.x == sx - dx)
        &&& (self.y_step == 1 ==> l.end.y == sy + dy) && (self.y_step == -1 ==> l.end.y == sy - dy)
        &&& if self.x_step == 0 {
                self.current.x == sx && self.current.y == sy + sm(self.y_step as int, k)
            } else if self.y_step == 0 {
                self.current.y == sy && self.current.x == sx + sm(self.x_step as int, k)
            } else if dx >= dy {
                let m = sm(self.y_step as int, self.current.y - sy);
                &&& self.current.x == sx + sm(self.x_step as int, k)
                &&& 0 <= m <= dy
                &&& self.error == pm(2 * dy, k + 1) - dx - pm(2 * dx, m)
                &&& 2 * dy - 2 * dx <= self.error < 2 * dy
            } else {
                let m = sm(self.x_step as int, self.current.x - sx);
                &&& self.current.y == sy + sm(self.y_step as int, k)
                &&& 0 <= m <= dx
                &&& self.error == pm(2 * dx, k + 1) - dy - pm(2 * dy, m)
                &&& 2 * dx - 2 * dy <= self.error < 2 * dx
            }
    }
}

pub mod code {
use super::*;
broadcast use {lemma_pm_succ, lemma_pm_zero, lemma_pm_one, lemma_minor_bound};

impl BreshamPoints {
    //@extract kind=fn file=rten-imageproc/src/drawing.rs within="impl BreshamPoints" name=new vis=pub
    //@| requires coords_ok(l)
    //@| ensures r.inv(l), r.k(l) == 0, // @ob:new.establishes_invariant

    //@extract kind=fn file=rten-imageproc/src/drawing.rs within="impl Iterator for BreshamPoints" name=next vis=pub
    //@| requires exists|l: Line| #[trigger] old(self).inv(l)   // the iterator was created by `new` and only advanced by `next`
    //@| ensures
    //@|     forall|l: Line| #[trigger] old(self).inv(l) ==> final(self).inv(l)
    //@|         && (old(self).k(l) < nsteps(l) ==> (r matches Some(p) && in_bbox(p, l) && final(self).k(l) == old(self).k(l) + 1))
    //@|         && (old(self).k(l) == nsteps(l) ==> r is None && final(self).k(l) == old(self).k(l)), // @ob:next.point_in_bounding_box_and_counts
}
} // mod

} // verus!
fn main() {}
