#![feature(allocator_api)]
// Unit U-symexpr-eval: SymExpr::eval computes the specification function `ev` used by the other
// SymExpr units (range / is_positive / simplify_canonical are all stated against `ev`; this unit
// ties `ev` to the code a user actually runs).  Verbatim body from
// rten-shape-inference/src/sym_expr.rs; everything outside //@extract holes is owned by /verif.
use vstd::prelude::*;
use std::sync::Arc;

verus! {

//@extract kind=struct file=rten-shape-inference/src/sym_expr.rs name=Symbol

//@extract kind=enum file=rten-shape-inference/src/sym_expr.rs name=SymExpr

//@extract kind=enum file=rten-shape-inference/src/sym_expr.rs name=EvalError

//@include contracts/verus/symexpr_spec.inc.rs

// ---------------------------------------------------------------- trusted declarations

/// Stand-in for SymbolMap (its `get` uses iterator adapters over a slice of (&str, i32) pairs,
/// outside Verus' subset): a finite map from names to i32 values. `get` is trusted: it returns
/// the bound value, or None if the name is unbound.
pub struct SymbolMap { pub ghost_env: Ghost<Map<Seq<char>, int>> }

impl SymbolMap {
    pub open spec fn env(&self) -> Env { self.ghost_env@ }

    #[verifier::external_body]
    pub fn get(&self, name: &String) -> (r: Option<i32>)
        ensures
            self.env().dom().contains(name@) ==> r == Some(self.env()[name@] as i32) && in_i32(self.env()[name@]),
            !self.env().dom().contains(name@) ==> r is None,
    { unimplemented!() }
}

/// `div_ceil` (free function in sym_expr.rs): contract discharged over the full i32 x i32
/// domain by the Kani harness U-symexpr-k:div_ceil.exact and assumed here.
#[verifier::external_body]
pub fn div_ceil(lhs: i32, rhs: i32) -> (r: i32)
    requires rhs != 0, in_i32(cdiv(lhs as int, rhs as int))
    ensures r as int == cdiv(lhs as int, rhs as int)
{ unimplemented!() }

/// every symbol of the expression is bound
pub open spec fn bound(e: SymExpr, env: Env) -> bool
    decreases e
{
    match e {
        SymExpr::Value(x) => true,
        SymExpr::Var(sym) => env.dom().contains(sym.name@),
        SymExpr::Neg(x) => bound(*x, env),
        _ => bound(child_l(e), env) && bound(child_r(e), env),
    }
}

pub broadcast proof fn lemma_unfold_bound(e: SymExpr, env: Env)
    requires #[trigger] bound(e, env)
    ensures
        match e {
            SymExpr::Value(x) => true,
            SymExpr::Var(sym) => env.dom().contains(sym.name@) && ev(e, env) == env[sym.name@],
            SymExpr::Neg(x) => bound(*x, env),
            SymExpr::Add(l, r) | SymExpr::Sub(l, r) | SymExpr::Mul(l, r) | SymExpr::Div(l, r)
            | SymExpr::DivCeil(l, r) | SymExpr::Max(l, r) | SymExpr::Min(l, r) | SymExpr::Broadcast(l, r) =>
                bound(*l, env) && bound(*r, env),
        },
{
}

// ---------------------------------------------------------------- code under contract
pub mod code_eval {
use super::*;
broadcast use {lemma_unfold_okp, lemma_unfold_bound, lemma_mul_smul, lemma_tdiv_exec};

impl SymExpr {
    //@extract kind=fn file=rten-shape-inference/src/sym_expr.rs within="impl SymExpr" name=eval vis=pub
    //@| requires okp(*self, symbols.env()), bound(*self, symbols.env()),
    //@| ensures r matches Ok(v) && v as int == ev(*self, symbols.env()), // @ob:eval.computes_ev
    //@| decreases self
    //@closure 0 x: i32 -> o: i32
    //@| requires x > i32::MIN
    //@| ensures o == -x
}
} // mod

} // verus!
fn main() {}
