// Demonstrations (against the real crate) of the three known findings recorded for
// SymExpr::simplify_canonical (C11).  Each test asserts the property -- simplify() preserves
// the value wherever the original evaluates -- and FAILS on the current tree.
// Run: copy to rten-shape-inference/tests/ in a scratch copy and `cargo test --release`
// (F1 panics with "attempt to multiply with overflow" in debug builds instead).
use rten_shape_inference::{SymExpr, SymbolMap};

// F1: x / b / c => x / (b * c): the merged divisor overflows although the original evaluates.
#[test]
fn f1_nested_symbolic_div_overflow() {
    let (x, b, c) = (SymExpr::var("x"), SymExpr::var("b"), SymExpr::var("c"));
    let e = (x / b) / c;
    let m = SymbolMap::new(&[("x", 5), ("b", 65536), ("c", 65536)]);
    assert_eq!(e.eval(&m).ok(), Some(0));
    assert_eq!(e.simplify().eval(&m).ok(), Some(0));
}

// F2: x.div_ceil(b).div_ceil(c) => x.div_ceil(b * c) is applied to symbolic divisors of any sign.
#[test]
fn f2_nested_div_ceil_negative_divisor() {
    let (x, b, c) = (SymExpr::var("x"), SymExpr::var("b"), SymExpr::var("c"));
    let e = x.div_ceil(&b).div_ceil(&c);
    let m = SymbolMap::new(&[("x", 3), ("b", 2), ("c", -1)]);
    assert_eq!(e.eval(&m).ok(), Some(-2));
    assert_eq!(e.simplify().eval(&m).ok(), Some(-2));
}

// F3: Broadcast rules assume broadcast-compatible operands >= 1; eval() computes max().
#[test]
fn f3_broadcast_zero_size() {
    let y = SymExpr::var("y");
    let e = SymExpr::Value(1).broadcast(&y);
    let m = SymbolMap::new(&[("y", 0)]);
    assert_eq!(e.eval(&m).ok(), Some(1));
    assert_eq!(e.simplify().eval(&m).ok(), Some(1));
}

#[test]
fn f3_broadcast_constant_wins() {
    let y = SymExpr::var("y");
    let e = SymExpr::Value(3).broadcast(&y);
    let m = SymbolMap::new(&[("y", 5)]);
    assert_eq!(e.eval(&m).ok(), Some(5));
    assert_eq!(e.simplify().eval(&m).ok(), Some(5));
}
