use rten_shape_inference::{SymExpr, SymbolMap};
#[test]
fn nested_const_div_overflow() {
    let x = SymExpr::var("x");
    let e = (x.clone() / SymExpr::Value(65536)) / SymExpr::Value(65536);
    let m = SymbolMap::new(&[("x", 5)]);
    assert_eq!(e.eval(&m).ok(), Some(0));
    let s = e.simplify();
    assert_eq!(s.eval(&m).ok(), Some(0));
    let e = x.div_ceil(&SymExpr::Value(65536)).div_ceil(&SymExpr::Value(65536));
    assert_eq!(e.eval(&m).ok(), Some(1));
    let s = e.simplify();
    assert_eq!(s.eval(&m).ok(), Some(1));
}
