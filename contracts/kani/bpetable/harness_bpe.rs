#[cfg(kani)]
mod verif_bpetable {
    use super::*;

    /// All 256 table entries are pairwise distinct (the byte -> char map is injective).
    /// No symbolic input besides the pair of positions, which ranges over all of u8 x u8;
    /// the two loops of `byte_to_char` have the constant bound 256.
    #[kani::proof]
    #[kani::unwind(258)]
    pub fn byte_to_char_injective() {
        let table = byte_to_char();
        let i: u8 = kani::any();
        let j: u8 = kani::any();
        if i != j {
            assert!(table[i as usize] != table[j as usize], "distinct bytes map to distinct chars");
        }
    }

    #[kani::proof]
    pub fn canary() {
        let x: u8 = kani::any();
        assert!(x != 7);
    }
}
