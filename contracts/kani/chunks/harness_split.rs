#[cfg(kani)]
mod verif_chunks {
    use super::*;

    /// Largest slice length (number of content tokens) used by any harness; the quick harnesses
    /// use 7, the thorough ones 10.
    pub const N: usize = 10;

    #[derive(Copy, Clone, PartialEq)]
    pub enum Clause {
        /// windows are contiguous, length 1..=chunk_size, in order, without gaps, cover 0..len
        Partition,
        /// two consecutive windows that both have the full length overlap by exactly `overlap`
        FullOverlap,
        /// every two consecutive windows (incl. the trailing short one) overlap by exactly `overlap`
        AnyOverlap,
    }

    /// `chunks_with_overlap` is generic in `T` and cannot look at element values, so a slice
    /// holding its own indices identifies every window by its contents.
    fn run(clause: Clause, max_len: usize) {
        let data: [u32; N] = [0, 1, 2, 3, 4, 5, 6, 7, 8, 9];
        let len: usize = kani::any();
        kani::assume(len <= max_len);
        let chunk_size: usize = kani::any();
        let overlap: usize = kani::any();
        // documented precondition of chunks_with_overlap (it asserts this)
        kani::assume(overlap < chunk_size);
        let input = &data[..len];

        let mut count = 0usize;
        let mut prev_start = 0usize;
        let mut prev_end = 0usize;
        let mut prev_len = 0usize;
        let mut saw_short_trailing = false;
        for c in input.chunks_with_overlap(chunk_size, overlap) {
            let clen = c.len();
            // start/end of the window inside `input`, recovered from the contents
            let start = if clen > 0 { c[0] as usize } else { 0 };
            let end = start + clen;
            if clause == Clause::Partition {
                assert!(clen >= 1, "window is non-empty");
                assert!(clen <= chunk_size, "window has at most chunk_size elements");
                let mut j = 0;
                while j < clen {
                    assert!(c[j] as usize == start + j, "window is contiguous");
                    j += 1;
                }
                assert!(end <= len, "window lies inside the input");
                if count == 0 {
                    assert!(start == 0, "first window starts at the first element");
                } else {
                    assert!(start > prev_start, "windows are in order");
                    assert!(end >= prev_end, "windows are in order (ends)");
                    assert!(start <= prev_end, "no element is skipped between windows");
                }
            }
            if count > 0 && clen > 0 {
                // number of elements shared with the previous window
                let ov_exact = prev_end >= start && prev_end - start == overlap;
                if clause == Clause::FullOverlap && clen == chunk_size && prev_len == chunk_size {
                    assert!(ov_exact, "consecutive full windows overlap by exactly `overlap`");
                }
                if clause == Clause::AnyOverlap {
                    assert!(ov_exact, "consecutive windows overlap by exactly `overlap`");
                }
                if clen < chunk_size {
                    saw_short_trailing = true;
                }
            }
            prev_start = start;
            prev_end = end;
            prev_len = clen;
            count += 1;
        }
        if clause == Clause::Partition {
            if len == 0 {
                assert!(count == 0, "empty input has no windows");
            } else {
                assert!(count >= 1 && prev_end == len, "last window ends at the last element");
            }
        }
        // witnesses for the two assumes: the bound is reached, overlap/stride > 1 are exercised,
        // several windows and a short trailing window occur
        kani::cover!(len == max_len && count >= 3 && overlap >= 1);
        kani::cover!(count >= 2 && overlap >= 2 && chunk_size - overlap >= 2);
        kani::cover!(saw_short_trailing && overlap >= 1);
        kani::cover!(chunk_size > len && count == 1);
    }

    #[kani::proof]
    #[kani::unwind(9)]
    pub fn chunks_partition() {
        run(Clause::Partition, 7)
    }

    #[kani::proof]
    #[kani::unwind(9)]
    pub fn chunks_full_windows_overlap() {
        run(Clause::FullOverlap, 7)
    }

    /// Fails on the unchanged tree (design finding D11): the trailing short window starts where
    /// the previous window ended. Kept apart so that it does not mask the two clauses above.
    #[kani::proof]
    #[kani::unwind(9)]
    pub fn chunks_trailing_window_overlap() {
        run(Clause::AnyOverlap, 7)
    }

    #[kani::proof]
    #[kani::unwind(12)]
    pub fn chunks_partition_10() {
        run(Clause::Partition, 10)
    }

    #[kani::proof]
    #[kani::unwind(12)]
    pub fn chunks_full_windows_overlap_10() {
        run(Clause::FullOverlap, 10)
    }

    /// `subslice_offsets(sub)` is `Some(r)` exactly when `sub` lies inside `self`, and then `r`
    /// is its element range. Both slices are symbolic windows of one 8-element array.
    #[kani::proof]
    pub fn subslice_offsets_exact() {
        let data: [u32; 8] = [0; 8];
        let a: usize = kani::any();
        let b: usize = kani::any();
        let c: usize = kani::any();
        let d: usize = kani::any();
        kani::assume(a <= b && b <= 8);
        kani::assume(c <= d && d <= 8);
        let outer = &data[a..b];
        let inner = &data[c..d];
        let r = outer.subslice_offsets(inner);
        let inside = a <= c && d <= b;
        match r {
            Some(r) => {
                assert!(inside, "Some only for a sub-slice");
                assert!(r.start == c - a && r.end == d - a, "range is exact");
            }
            None => assert!(!inside, "a sub-slice is always found"),
        }
        kani::cover!(inside && c > a && d < b && c < d);
        kani::cover!(!inside && c < a);
        kani::cover!(!inside && d > b && c >= a);
        kani::cover!(inside && c == d && c == b);
    }

    /// chunks_with_overlap documents (asserts) overlap < chunk_size: with overlap >= chunk_size
    /// the stride would be zero or negative and the iterator could not make progress. The call
    /// must never return in that case (should_panic + cover that must be unsatisfiable).
    #[kani::proof]
    #[kani::should_panic]
    pub fn chunks_rejects_overlap_ge_chunk_size() {
        let data = [0u32; 4];
        let (chunk, overlap): (usize, usize) = (kani::any(), kani::any());
        kani::assume(overlap >= chunk);
        let _it = data[..].chunks_with_overlap(chunk, overlap);
        kani::cover!(true, "chunks_with_overlap returned for overlap >= chunk_size");
    }

    #[kani::proof]
    pub fn canary() {
        let x: u8 = kani::any();
        assert!(x != 7);
    }
}
