#[cfg(kani)]
mod verif_onnxload {
    use super::*;
    use crate::model::rten_loader::verif_rtenload::{any_shape, dims_representable, int_product};
    use crate::constant_storage::ConstantStorage;
    use rten_tensor::prelude::*;
    use std::sync::Arc;

    /// Stub for `alloc::fmt::format` (text of error messages only; listed as an assumption).
    pub fn format_stub(_args: core::fmt::Arguments<'_>) -> String {
        String::new()
    }

    /// Maximum number of elements / bytes of tensor data.
    pub const ELEMS: usize = 4;
    pub const BYTES: usize = 8;

    /// A vector of `n <= N` zeroed elements, n symbolic (allocation of N, then truncated).
    pub fn any_len_vec<T: Copy + Default, const N: usize>() -> Vec<T> {
        let mut v = vec![T::default(); N];
        let n: usize = kani::any();
        kani::assume(n <= N);
        v.truncate(n);
        v
    }

    // ------------------------------------------------------------------ tensor_from_elements

    /// `tensor_from_elements(shape, data)`: no panic / overflow; `Ok(t)` implies the element count
    /// of `t` over the integers equals `data.len()`. `representable` selects the input class
    /// (all row-major strides and the element count of `shape` fit in usize, or not).
    pub fn tensor_from_elements_contract<const R: usize>(representable: bool) -> (bool, usize) {
        let dims: [usize; R] = any_shape::<R>();
        let shape = &dims[..];
        kani::assume(dims_representable(shape) == representable);
        let data: Vec<i32> = any_len_vec::<i32, ELEMS>();
        let n = data.len();
        let r = tensor_from_elements(shape, data, None);
        if let Ok(t) = &r {
            assert!(
                int_product(t.shape()) == Some(t.view().storage().len()),
                "Ok(tensor): element count over the integers must equal the data length"
            );
        }
        let ok = r.is_ok();
        std::mem::forget(r);
        (ok, n)
    }

    #[kani::proof]
    #[kani::unwind(8)]
    #[kani::stub(alloc::fmt::format, format_stub)]
    pub fn tensor_from_elements_representable_dims() {
        let (ok, n) = tensor_from_elements_contract::<2>(true);
        kani::cover!(ok && n == ELEMS, "Ok reachable");
        kani::cover!(!ok, "Err reachable");
    }

    #[kani::proof]
    #[kani::unwind(8)]
    #[kani::stub(alloc::fmt::format, format_stub)]
    pub fn tensor_from_elements_oversized_dims() {
        let (_ok, n) = tensor_from_elements_contract::<2>(false);
        kani::cover!(n == 0, "class reachable with empty data");
    }

    // ------------------------------------------------------------------ tensor_from_bytes

    /// `tensor_from_bytes::<i32>(shape, bytes)` (the `raw_data` field): no panic / overflow;
    /// `Ok(t)` implies element count over the integers == number of i32 elements backing `t`.
    #[kani::proof]
    #[kani::unwind(10)]
    #[kani::stub(alloc::fmt::format, format_stub)]
    pub fn tensor_from_bytes_i32_representable_dims() {
        let dims: [usize; 2] = any_shape::<2>();
        let shape = &dims[..];
        kani::assume(dims_representable(shape));
        let empty_unallocated: bool = kani::any();
        let data: Vec<u8> = if empty_unallocated { Vec::new() } else { any_len_vec::<u8, BYTES>() };
        let nbytes = data.len();
        let r = tensor_from_bytes::<i32>(shape, data, None);
        if let Ok(t) = &r {
            let len = t.view().storage().len();
            assert!(
                int_product(t.shape()) == Some(len),
                "Ok(tensor): element count over the integers must equal the data length"
            );
            kani::cover!(len == 2, "Ok reachable with 2 elements");
            kani::cover!(empty_unallocated, "Ok reachable for an unallocated empty buffer");
        } else {
            kani::cover!(nbytes % 4 == 0, "Err reachable with whole elements");
        }
        std::mem::forget(r);
    }

    // ------------------------------------------------------------------ tensor_from_external_data

    /// `tensor_from_external_data::<i32>(shape, slice)`: `slice` is any byte range of a 16-byte
    /// storage (so aligned, unaligned and empty ranges all occur).
    #[kani::proof]
    #[kani::unwind(8)]
    #[kani::stub(alloc::fmt::format, format_stub)]
    pub fn tensor_from_external_data_i32_representable_dims() {
        let dims: [usize; 2] = any_shape::<2>();
        let shape = &dims[..];
        kani::assume(dims_representable(shape));
        let bytes: [u8; 16] = kani::any();
        let storage = Arc::new(ConstantStorage::Buffer(bytes.to_vec()));
        let start: usize = kani::any();
        let end: usize = kani::any();
        kani::assume(start <= end && end <= 16);
        let slice = DataSlice { storage, bytes: start..end };
        let r = tensor_from_external_data::<i32>(shape, &slice, None);
        if let Ok(t) = &r {
            let len = t.view().storage().len();
            assert!(
                int_product(t.shape()) == Some(len),
                "Ok(tensor): element count over the integers must equal the data length"
            );
            kani::cover!(len == 3, "Ok reachable with 3 elements");
        } else {
            kani::cover!(start % 4 != 0, "Err reachable (misaligned)");
            kani::cover!(start % 4 == 0 && (end - start) % 4 == 0, "Err reachable (length mismatch)");
        }
        std::mem::forget(r);
        std::mem::forget(slice);
    }
}
