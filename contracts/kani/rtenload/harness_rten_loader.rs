#[cfg(kani)]
pub(crate) mod verif_rtenload {
    use super::*;
    use rten_tensor::Storage;
    use rten_tensor::prelude::*;

    /// Bytes of backing storage (the "file").
    pub const STORAGE: usize = 16;

    // ------------------------------------------------------------------ ghost arithmetic

    /// Product of `shape` over the integers; `None` if it exceeds `usize::MAX`.
    /// (A zero dim gives 0 whatever the other dims are; otherwise the product is monotone in
    /// its prefixes, so it fits iff every prefix product fits.)
    pub fn int_product(shape: &[usize]) -> Option<usize> {
        let mut i = 0;
        while i < shape.len() {
            if shape[i] == 0 {
                return Some(0);
            }
            i += 1;
        }
        let mut p: usize = 1;
        let mut i = 0;
        while i < shape.len() {
            p = p.checked_mul(shape[i])?;
            i += 1;
        }
        Some(p)
    }

    /// True iff the element count and every row-major stride of `shape` are representable:
    /// every prefix product and every suffix product of the dims, over the integers, fits in
    /// usize. (Without zero dims this is just "the element count fits in usize".)
    pub fn dims_representable(shape: &[usize]) -> bool {
        let mut p: usize = 1;
        let mut i = 0;
        while i < shape.len() {
            match p.checked_mul(shape[i]) {
                Some(q) => p = q,
                None => return false,
            }
            i += 1;
        }
        let mut p: usize = 1;
        let mut i = shape.len();
        while i > 0 {
            i -= 1;
            match p.checked_mul(shape[i]) {
                Some(q) => p = q,
                None => return false,
            }
        }
        true
    }

    /// The postcondition C05 demands of a loaded constant: its element count, computed over the
    /// integers from its shape, equals the number of elements of its backing data.
    pub fn count_matches_data<T>(c: &ConstantNodeData<T>) -> bool {
        match c {
            ConstantNodeData::ArcSlice(t) => int_product(t.shape()) == Some(t.view().storage().len()),
            ConstantNodeData::Arc(t) => int_product(t.shape()) == Some(t.view().storage().len()),
        }
    }

    // ------------------------------------------------------------------ input generators

    /// A dimension size `hi * 2^56 + lo` with symbolic bytes `hi`, `lo` (bits 8..56 are zero).
    /// Contains all small sizes 0..=255 and sizes >= 2^56 up to 0xff000000000000ff, so products
    /// of two or three dims range from 0 to far beyond 2^64. (Full-width symbolic dims make
    /// the proof depend on 64-bit commutativity of `*`, which the SAT back end does not decide.)
    pub fn any_dim() -> usize {
        let hi: u8 = kani::any();
        let lo: u8 = kani::any();
        ((hi as usize) << 56) | (lo as usize)
    }

    pub fn any_shape<const R: usize>() -> [usize; R] {
        let mut dims = [0usize; R];
        let mut i = 0;
        while i < R {
            dims[i] = any_dim();
            i += 1;
        }
        dims
    }

    /// Backing storage: STORAGE symbolic bytes.
    pub fn any_storage() -> Arc<ConstantStorage> {
        let data: [u8; STORAGE] = kani::any();
        Arc::new(ConstantStorage::Buffer(data.to_vec()))
    }

    // ------------------------------------------------------------------ constant_data_from_storage_offset

    /// Input classes for `constant_data_from_storage_offset::<T>(storage, shape, offset)`, defined
    /// over the integers only:
    ///   0 = in range: dims representable, count * size_of::<T>() and offset + byte length fit in usize
    ///   1 = dims not representable (element count or a stride exceeds usize::MAX)
    ///   2 = dims fine, but count * size_of::<T>() exceeds usize::MAX
    ///   3 = those fine, but offset + byte length exceeds usize::MAX
    pub fn input_class<T>(shape: &[usize], offset: usize) -> u8 {
        if !dims_representable(shape) {
            return 1;
        }
        let mut p: usize = 1;
        let mut i = 0;
        while i < shape.len() {
            p = p * shape[i];
            i += 1;
        }
        let Some(bytes) = p.checked_mul(std::mem::size_of::<T>()) else {
            return 2;
        };
        if offset.checked_add(bytes).is_none() {
            return 3;
        }
        0
    }

    /// Contract harness for the real `constant_data_from_storage_offset::<T>` on one input class:
    /// never panics / overflows / reads out of bounds (Kani default checks), and `Ok(c)` implies
    /// that the element count of `c` over the integers equals the length of its backing data.
    /// The returned value is forgotten, not dropped (the drop glue of `Box<dyn Error>` inside
    /// `LoadError` fans out over every error type of the crate and is not under check).
    /// Returns whether the call returned `Ok`.
    pub fn storage_offset_contract<T: LeBytes + FromByteArray, const R: usize>(lo_class: u8, hi_class: u8) -> bool {
        let storage = any_storage();
        let dims: [usize; R] = any_shape::<R>();
        let shape = &dims[..];
        let offset: usize = kani::any();
        let class = input_class::<T>(shape, offset);
        kani::assume(lo_class <= class && class <= hi_class);
        let r = constant_data_from_storage_offset::<T>(&storage, shape, offset, None);
        match &r {
            Ok(c) => {
                assert!(
                    count_matches_data(c),
                    "Ok(constant): element count over the integers must equal the backing data length"
                );
            }
            Err(_) => {}
        }
        kani::cover!(class == lo_class, "input class reachable");
        kani::cover!(class == hi_class, "input class reachable");
        let ok = r.is_ok();
        std::mem::forget(r);
        std::mem::forget(storage);
        ok
    }

    #[kani::proof]
    #[kani::unwind(8)]
    pub fn storage_offset_i32_in_range() {
        let ok = storage_offset_contract::<i32, 2>(0, 0);
        kani::cover!(ok, "Ok reachable");
        kani::cover!(!ok, "Err reachable");
    }

    #[kani::proof]
    #[kani::unwind(8)]
    pub fn storage_offset_i32_dims_overflow() {
        storage_offset_contract::<i32, 2>(1, 1);
    }

    #[kani::proof]
    #[kani::unwind(8)]
    pub fn storage_offset_i32_byte_range_overflow() {
        storage_offset_contract::<i32, 2>(2, 3);
    }

    // thorough tier: the other element types (u8/i8: align 1, always the zero-copy view; f32)
    // and rank 3.
    #[kani::proof]
    #[kani::unwind(8)]
    pub fn storage_offset_f32_in_range() {
        let ok = storage_offset_contract::<f32, 2>(0, 0);
        kani::cover!(ok, "Ok reachable");
    }

    #[kani::proof]
    #[kani::unwind(8)]
    pub fn storage_offset_u8_in_range() {
        let ok = storage_offset_contract::<u8, 2>(0, 0);
        kani::cover!(ok, "Ok reachable");
    }

    #[kani::proof]
    #[kani::unwind(8)]
    pub fn storage_offset_u8_oversized() {
        storage_offset_contract::<u8, 2>(1, 3);
    }

    #[kani::proof]
    #[kani::unwind(8)]
    pub fn storage_offset_i8_in_range() {
        let ok = storage_offset_contract::<i8, 2>(0, 0);
        kani::cover!(ok, "Ok reachable");
    }

    #[kani::proof]
    #[kani::unwind(8)]
    pub fn storage_offset_i32_rank3_in_range() {
        let ok = storage_offset_contract::<i32, 3>(0, 0);
        kani::cover!(ok, "Ok reachable");
    }

    // ------------------------------------------------------------------ constant_data_from_flatbuffers_vec

    /// `constant_data_from_flatbuffers_vec` returns `ConstantNodeData<T>` today; a repair that
    /// reports length mismatches has to return a `Result`. Accept either shape of return value.
    pub trait LoadedConstant<T> {
        fn loaded(&self) -> Option<&ConstantNodeData<T>>;
    }
    impl<T> LoadedConstant<T> for ConstantNodeData<T> {
        fn loaded(&self) -> Option<&ConstantNodeData<T>> {
            Some(self)
        }
    }
    impl<T, E> LoadedConstant<T> for Result<ConstantNodeData<T>, E> {
        fn loaded(&self) -> Option<&ConstantNodeData<T>> {
            self.as_ref().ok()
        }
    }

    /// Inline constant data: a flatbuffers vector `[u32 count][count * size_of::<T>() bytes]` at
    /// byte `loc` of the storage (loc = 0: payload 4-byte aligned => zero-copy view; loc = 1:
    /// unaligned => copied), with a shape that is not tied to `count` in any way -- the
    /// flatbuffers verifier checks that the vector lies inside the buffer (assumed here), not
    /// that it agrees with the `shape` field. `matching` selects the input class
    /// "integer product of shape == count" or its complement.
    /// Returns (loaded, loc, count).
    pub fn flatbuffers_vec_contract<T, const R: usize>(matching: bool) -> (bool, usize, u32)
    where
        T: FromByteArray + for<'a> flatbuffers::Follow<'a, Inner = T>,
    {
        let mut data: [u8; STORAGE] = kani::any();
        let loc: usize = kani::any();
        kani::assume(loc <= 1);
        let count: u32 = kani::any();
        // flatbuffers verifier guarantee: the vector payload lies inside the buffer.
        kani::assume(loc + 4 + (count as usize) * std::mem::size_of::<T>() <= STORAGE);
        let cb = count.to_le_bytes();
        data[loc] = cb[0];
        data[loc + 1] = cb[1];
        data[loc + 2] = cb[2];
        data[loc + 3] = cb[3];
        let storage = Arc::new(ConstantStorage::Buffer(data.to_vec()));
        let dims: [usize; R] = any_shape::<R>();
        let shape = &dims[..];
        let is_match = dims_representable(shape) && int_product(shape) == Some(count as usize);
        kani::assume(is_match == matching);
        // Safety: `storage.data()` holds a count-prefixed vector at `loc` (constructed above).
        let fb_vec = unsafe { flatbuffers::Vector::<T>::new(storage.data(), loc) };
        let r = constant_data_from_flatbuffers_vec(&storage, fb_vec, shape);
        if let Some(c) = r.loaded() {
            assert!(
                count_matches_data(c),
                "loaded inline constant: element count over the integers must equal the data length"
            );
        }
        kani::cover!(count > 0, "class reachable with non-empty data");
        let loaded = r.loaded().is_some();
        std::mem::forget(r);
        std::mem::forget(storage);
        (loaded, loc, count)
    }

    #[kani::proof]
    #[kani::unwind(8)]
    pub fn flatbuffers_vec_i32_matching_shape() {
        let (loaded, loc, count) = flatbuffers_vec_contract::<i32, 2>(true);
        kani::cover!(loaded && loc == 0 && count > 0, "zero-copy view reachable");
        kani::cover!(loaded && loc == 1 && count > 0, "copied data reachable");
    }

    #[kani::proof]
    #[kani::unwind(8)]
    pub fn flatbuffers_vec_i32_mismatched_shape() {
        let _ = flatbuffers_vec_contract::<i32, 2>(false);
    }

    // ------------------------------------------------------------------ load(): header -> model slice

    pub static mut ROOT_AS_MODEL_CALLS: u32 = 0;

    /// Stub for `rten_model_file::schema::root_as_model` (the flatbuffers verifier, not under
    /// check): records the call and reports an invalid buffer, so that `load` returns right after
    /// the header decision and the `&file_data[offset..offset + len]` slice expression.
    pub fn root_as_model_stub(_buf: &[u8]) -> Result<sg::Model<'_>, flatbuffers::InvalidFlatbuffer> {
        unsafe {
            ROOT_AS_MODEL_CALLS += 1;
        }
        Err(flatbuffers::InvalidFlatbuffer::TooManyTables)
    }

    /// Stubs for the two callees of `load` that come after the parser (`load_graph`,
    /// `Graph::prepack_weights`). They are never executed -- the parser stub returns `Err`
    /// first -- but without them Kani's static reachability pulls in the whole inference
    /// engine (operators, optimizer, thread pool), which it cannot compile.
    pub fn load_graph_stub(
        _serialized_graph: sg::Graph,
        _registry: &OpRegistry,
        _storage: Arc<ConstantStorage>,
        _tensor_data_offset: Option<u64>,
        _optimize: OptimizeMode,
        _capture_env: Option<&CaptureEnv>,
    ) -> Result<Graph, LoadError> {
        Err(LoadErrorImpl::UnknownFileType.into())
    }
    pub fn prepack_weights_stub(_graph: &Graph, _cache: &mut WeightCache) {}

    /// Stub for `RandomState::new` (hash seeds of the two empty `HashMap`s inside the
    /// `ModelOptions` value the harness has to pass to `load`): the real one reads OS entropy,
    /// which Kani cannot model. Fixed keys; no map is ever hashed into.
    pub fn random_state_stub() -> std::hash::RandomState {
        // Safety: RandomState is two u64 keys; any bit pattern is valid.
        unsafe { std::mem::transmute::<[u64; 2], std::hash::RandomState>([0, 0]) }
    }

    /// Stub for `alloc::fmt::format` (error-message text only; never executed in this harness,
    /// it only keeps the formatting machinery out of the symbolic execution).
    pub fn format_stub(_args: core::fmt::Arguments<'_>) -> String {
        String::new()
    }

    pub const FILE: usize = 40;

    /// The real `load` on a symbolic file prefix (symbolic header bytes, file length FILE):
    /// `Header::from_buf` (real) followed by the model-data slice expression must not panic,
    /// overflow or index out of bounds, whatever the header fields are.
    #[kani::proof]
    #[kani::unwind(8)]
    #[kani::stub(rten_model_file::schema::root_as_model, root_as_model_stub)]
    #[kani::stub(load_graph, load_graph_stub)]
    #[kani::stub(alloc::fmt::format, format_stub)]
    #[kani::stub(std::hash::RandomState::new, random_state_stub)]
    #[kani::stub(crate::graph::Graph::prepack_weights, prepack_weights_stub)]
    pub fn load_header_model_slice() {
        let data: [u8; FILE] = kani::any();
        let header_ok = Header::from_buf(&data[..]).is_ok();
        let storage = Arc::new(ConstantStorage::Buffer(data.to_vec()));
        let options = ModelOptions::with_ops(OpRegistry::with_ops(&[]));
        let r = load(storage, &options);
        let calls = unsafe { ROOT_AS_MODEL_CALLS };
        kani::cover!(header_ok && calls == 1, "valid header: slice expression evaluated, parser reached");
        kani::cover!(!header_ok && calls == 1, "no RTEN magic: whole file handed to the parser");
        kani::cover!(calls == 0, "invalid header rejected");
        std::mem::forget(r);
        std::mem::forget(options);
    }

    #[kani::proof]
    pub fn canary() {
        let x: u8 = kani::any();
        assert!(x != 7);
    }
}
