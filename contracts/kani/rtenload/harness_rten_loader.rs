#[cfg(kani)]
mod verif_rtenload {
    use super::*;
    use rten_tensor::prelude::*;
    use rten_tensor::Storage;

    /// Bytes of backing storage (the "file").
    pub const STORAGE: usize = 16;
    /// Maximum tensor rank.
    pub const RANK: usize = 3;

    /// Stub for `alloc::fmt::format` (error-message formatting only; listed as an assumption).
    pub fn format_stub(_args: core::fmt::Arguments<'_>) -> String {
        String::new()
    }

    /// Product of `shape` over the integers; `None` if it exceeds `usize::MAX`.
    /// (Zero dims give 0 whatever the other dims are; otherwise the product is monotone, so it
    /// fits iff every prefix product fits.)
    pub fn int_product(shape: &[usize]) -> Option<usize> {
        let mut i = 0;
        while i < shape.len() {
            if shape[i] == 0 {
                return Some(0);
            }
            i += 1;
        }
        let mut p: usize = 1;
        let mut i = 0;
        while i < shape.len() {
            p = p.checked_mul(shape[i])?;
            i += 1;
        }
        Some(p)
    }

    /// True iff every prefix product of `shape`, taken over the integers, fits in usize.
    pub fn prefix_products_fit(shape: &[usize]) -> bool {
        let mut p: usize = 1;
        let mut i = 0;
        while i < shape.len() {
            match p.checked_mul(shape[i]) {
                Some(q) => p = q,
                None => return false,
            }
            i += 1;
        }
        true
    }

    /// Backing storage: symbolic bytes, symbolic length 0..=STORAGE.
    pub fn any_storage() -> Arc<ConstantStorage> {
        let data: [u8; STORAGE] = kani::any();
        let n: usize = kani::any();
        kani::assume(n <= STORAGE);
        Arc::new(ConstantStorage::Buffer(data[..n].to_vec()))
    }

    /// The postcondition C05 demands of a loaded constant: its element count, computed over the
    /// integers from its shape, equals the number of elements of its backing data.
    pub fn count_matches_data<T>(c: &ConstantNodeData<T>) -> bool {
        match c {
            ConstantNodeData::ArcSlice(t) => int_product(t.shape()) == Some(t.view().storage().len()),
            ConstantNodeData::Arc(t) => int_product(t.shape()) == Some(t.view().storage().len()),
        }
    }

    /// Input classes, defined over the integers only (not by the code's evaluation order):
    ///   0 = in range: all prefix products of shape, product * size_of::<T>() and
    ///       offset + product * size_of::<T>() fit in usize
    ///   1 = some prefix product of the dims exceeds usize::MAX
    ///   2 = dims fine, but product * size_of::<T>() exceeds usize::MAX
    ///   3 = those fine, but offset + byte length exceeds usize::MAX
    pub fn input_class<T>(shape: &[usize], offset: usize) -> u8 {
        if !prefix_products_fit(shape) {
            return 1;
        }
        let mut p: usize = 1;
        let mut i = 0;
        while i < shape.len() {
            p = p * shape[i];
            i += 1;
        }
        let Some(bytes) = p.checked_mul(std::mem::size_of::<T>()) else {
            return 2;
        };
        if offset.checked_add(bytes).is_none() {
            return 3;
        }
        0
    }

    /// Contract harness for the real `constant_data_from_storage_offset::<T>` restricted to one
    /// input class: never panics / overflows / reads out of bounds; `Ok(c)` implies the element
    /// count of `c` matches its backing data.
    pub fn storage_offset_contract<T: LeBytes + FromByteArray>(class: u8) {
        let storage = any_storage();
        let dims: [usize; RANK] = kani::any();
        let rank: usize = kani::any();
        kani::assume(rank <= RANK);
        let shape = &dims[..rank];
        let offset: usize = kani::any();
        kani::assume(input_class::<T>(shape, offset) == class);
        let r = constant_data_from_storage_offset::<T>(&storage, shape, offset, None);
        match r {
            Ok(c) => {
                assert!(
                    count_matches_data(&c),
                    "Ok(constant): element count over the integers must equal the backing data length"
                );
                kani::cover!(rank == RANK, "Ok reachable with maximum rank");
            }
            Err(_) => {
                kani::cover!(true, "Err reachable");
            }
        }
        kani::cover!(rank == RANK, "class reachable with maximum rank");
    }

    #[kani::proof]
    #[kani::unwind(20)]
    #[kani::stub(alloc::fmt::format, format_stub)]
    pub fn storage_offset_i32_in_range() {
        storage_offset_contract::<i32>(0);
    }

    #[kani::proof]
    #[kani::unwind(20)]
    #[kani::stub(alloc::fmt::format, format_stub)]
    pub fn storage_offset_i32_dims_product_overflow() {
        storage_offset_contract::<i32>(1);
    }

    #[kani::proof]
    pub fn canary() {
        let x: u8 = kani::any();
        assert!(x != 7);
    }
}
