#[cfg(kani)]
mod verif_pool {
    use super::*;
    use std::mem::{align_of, size_of, ManuallyDrop};

    fn noop_release(_: &mut Buffer) {}

    /// A `Buffer` *value* that is not backed by an allocation: every capacity and every valid
    /// `std::alloc::Layout` (size <= isize::MAX rounded, align a power of two). `layout_match` /
    /// `can_fit` only read `capacity` and `layout`.
    fn any_unbacked_buffer() -> ManuallyDrop<Buffer> {
        let capacity: usize = kani::any();
        let size: usize = kani::any();
        let align: usize = kani::any();
        let layout = std::alloc::Layout::from_size_align(size, align);
        kani::assume(layout.is_ok());
        ManuallyDrop::new(Buffer {
            ptr: std::ptr::NonNull::<u8>::dangling().as_ptr(),
            capacity,
            layout: layout.unwrap(),
            drop: noop_release,
        })
    }

    /// `Vec::<U>::from_raw_parts(ptr, 0, capacity)` is sound only if the allocation has exactly
    /// `size_of::<U>() * capacity` bytes (over the integers) and alignment `align_of::<U>()`.
    fn layout_valid_for<U>(buf: &Buffer) -> bool {
        (size_of::<U>() as u128) * (buf.capacity as u128) == buf.layout.size() as u128
            && align_of::<U>() == buf.layout.align()
    }

    fn check_layout_match<U>() {
        let buf = any_unbacked_buffer();
        let m = buf.layout_match::<U>();
        if m {
            assert!(layout_valid_for::<U>(&buf), "layout_match accepted a buffer whose layout is not valid for the element type");
        }
        kani::cover!(m && buf.capacity > 1);
        kani::cover!(!m);
    }

    fn check_can_fit<U>() {
        let buf = any_unbacked_buffer();
        let n: usize = kani::any();
        let f = buf.can_fit::<U>(n);
        if f {
            assert!(layout_valid_for::<U>(&buf), "can_fit accepted a buffer whose layout is not valid for the element type");
            assert!(buf.capacity >= n, "can_fit accepted a buffer with less than the requested capacity");
        }
        kani::cover!(f && n > 1);
        kani::cover!(!f);
    }

    /// complete: loop-free, capacity/request full usize, every valid layout, per element type.
    #[kani::proof]
    pub fn layout_match_sound() {
        check_layout_match::<u8>();
        check_layout_match::<u16>();
        check_layout_match::<u32>();
        check_layout_match::<f32>();
        check_layout_match::<u64>();
        check_layout_match::<u128>();
        check_layout_match::<[u8; 3]>();
        check_layout_match::<[u8; 4]>();
        check_layout_match::<[u32; 2]>();
        check_layout_match::<()>();
    }

    #[kani::proof]
    pub fn can_fit_sound() {
        check_can_fit::<u8>();
        check_can_fit::<u16>();
        check_can_fit::<u32>();
        check_can_fit::<f32>();
        check_can_fit::<u64>();
        check_can_fit::<u128>();
        check_can_fit::<[u8; 3]>();
        check_can_fit::<[u8; 4]>();
        check_can_fit::<[u32; 2]>();
        check_can_fit::<()>();
    }

    // ------------------------------------------------------------------ bounded: real allocations

    /// from_vec::<T> then into_vec::<U> on a real allocation of `cap` elements (concrete).
    /// Kani's allocator model checks on every path: no double free, dealloc layout == alloc layout,
    /// writes inside the allocation.
    fn roundtrip<T, U>(cap: usize) -> bool {
        let v: Vec<T> = Vec::with_capacity(cap);
        let cap0 = v.capacity();
        let p0 = v.as_ptr() as *const u8;
        let buf = Buffer::from_vec(v);
        assert!(buf.capacity == cap0, "from_vec must keep the capacity");
        assert!(buf.layout == std::alloc::Layout::array::<T>(cap0).unwrap(), "from_vec must record the allocation's layout");
        assert!(buf.ptr as *const u8 == p0, "from_vec must keep the allocation");
        match buf.into_vec::<U>() {
            Some(mut w) => {
                assert!(w.len() == 0);
                assert!(w.capacity() >= cap0, "into_vec lost capacity");
                assert!(
                    size_of::<U>() * w.capacity() == size_of::<T>() * cap0 && align_of::<U>() == align_of::<T>(),
                    "into_vec produced a Vec whose layout differs from the allocation"
                );
                assert!(w.as_ptr() as *const u8 == p0);
                // the whole capacity is writable memory of the allocation
                unsafe { std::ptr::write_bytes(w.as_mut_ptr(), 0, w.capacity()) };
                drop(w); // frees with Layout::array::<U>(capacity): checked against the allocation
                true
            }
            // `self` was dropped inside into_vec: released exactly once through release::<T>
            None => false,
        }
    }

    fn roundtrip_caps<T, U>() -> bool {
        let a = roundtrip::<T, U>(0);
        let b = roundtrip::<T, U>(1);
        let c = roundtrip::<T, U>(3);
        let d = roundtrip::<T, U>(8);
        assert!(a == b && b == c && c == d);
        d
    }

    #[kani::proof]
    #[kani::unwind(10)]
    pub fn from_vec_into_vec_same_layout() {
        assert!(roundtrip_caps::<f32, f32>());
        assert!(roundtrip_caps::<f32, u32>());
        assert!(roundtrip_caps::<u8, i8>());
        assert!(roundtrip_caps::<[u32; 2], [f32; 2]>());
    }

    #[kani::proof]
    #[kani::unwind(10)]
    pub fn from_vec_into_vec_other_layout() {
        // result (Some/None) is not asserted here: the property only constrains `Some`.
        let _ = roundtrip::<f32, u64>(3);
        let _ = roundtrip::<f32, u64>(8);
        let _ = roundtrip::<u64, f32>(3);
        let _ = roundtrip::<[u8; 4], f32>(3);
        let _ = roundtrip::<f32, [u8; 4]>(8);
        let _ = roundtrip::<[u8; 3], u8>(4);
        let _ = roundtrip::<u8, [u8; 3]>(3);
        let _ = roundtrip::<u8, [u8; 3]>(8);
    }

    fn in_pool<T>(pool: &BufferPool, v: &Vec<T>) -> bool {
        let bufs = pool.buffers.lock().unwrap();
        let mut i = 0;
        let mut found = false;
        while i < bufs.len() {
            if bufs[i].ptr as *const u8 == v.as_ptr() as *const u8 {
                found = true;
            }
            i += 1;
        }
        found
    }

    pub const MAX_REQ: usize = 40;

    /// One allocation of `n` (symbolic, <= MAX_REQ) elements of `U` from a pool that was given
    /// buffers `A` x cap_a and `B` x cap_b (concrete). Returns the live state so that callers can
    /// continue. Pools are forgotten, not dropped, at the end of the alloc harnesses (dropping is
    /// checked by `pool_drop_frees_each_buffer_once`; it dominates CBMC time).
    fn alloc_first<A, B, U>(min_size: usize, cap_a: usize, cap_b: usize) -> (BufferPool, Vec<U>, usize, usize) {
        let pool = BufferPool::new().with_min_size(min_size);
        pool.add(Vec::<A>::with_capacity(cap_a));
        pool.add(Vec::<B>::with_capacity(cap_b));
        let len0 = pool.len();
        assert!(len0 <= 2);
        let n: usize = kani::any();
        kani::assume(n <= MAX_REQ);

        let mut v: Vec<U> = pool.alloc(n);
        let len1 = pool.len();
        assert!(v.len() == 0);
        assert!(v.capacity() >= n, "alloc returned less than the requested capacity");
        assert!(len1 == len0 || len1 + 1 == len0);
        if n > 0 {
            assert!(!in_pool(&pool, &v), "buffer handed out but still in the pool");
        }
        // the memory is valid for n elements of U
        unsafe { std::ptr::write_bytes(v.as_mut_ptr(), 0, n) };
        kani::cover!(len1 + 1 == len0); // served from the pool
        kani::cover!(len1 == len0 && n > 0); // pool bypassed / nothing fits
        (pool, v, n, len0)
    }

    fn check_alloc<A, B, U>(min_size: usize, cap_a: usize, cap_b: usize) {
        let (pool, v, _n, _len0) = alloc_first::<A, B, U>(min_size, cap_a, cap_b);
        // freed with Layout::array::<U>(capacity): Kani checks it against the allocation
        drop(v);
        std::mem::forget(pool);
    }

    /// A second holder asks while the first still holds its buffer.
    fn check_alloc_twice<A, B, U>(min_size: usize, cap_a: usize, cap_b: usize) {
        let (pool, v, n, len0) = alloc_first::<A, B, U>(min_size, cap_a, cap_b);
        let mut w: Vec<U> = pool.alloc(n);
        assert!(w.len() == 0);
        assert!(w.capacity() >= n, "alloc returned less than the requested capacity");
        if n > 0 {
            assert!(w.as_ptr() != v.as_ptr(), "same buffer handed to two holders");
            assert!(!in_pool(&pool, &w), "buffer handed out but still in the pool");
        }
        unsafe { std::ptr::write_bytes(w.as_mut_ptr(), 0, n) };
        kani::cover!(len0 == 2 && pool.len() == 0); // both served from the pool
        drop(w);
        drop(v);
        std::mem::forget(pool);
    }

    #[kani::proof]
    #[kani::unwind(6)]
    pub fn alloc_same_type() {
        check_alloc::<f32, f32, f32>(0, 8, 32);
    }

    #[kani::proof]
    #[kani::unwind(6)]
    pub fn alloc_same_type_larger_first() {
        // the larger buffer is pooled BEFORE the smaller one: a best-fit search must not trade a
        // fitting candidate for a later, smaller one that does not fit
        check_alloc::<f32, f32, f32>(0, 32, 8);
    }

    #[kani::proof]
    #[kani::unwind(6)]
    pub fn alloc_mixed_types() {
        // same size+align (u32 -> f32) is reusable, the u64 buffer is not
        check_alloc::<u32, u64, f32>(16, 33, 8);
    }

    #[kani::proof]
    #[kani::unwind(6)]
    pub fn alloc_misaligned_candidates() {
        // [u8; 4] x 32 has the byte size of f32 x 32 but alignment 1
        check_alloc::<[u8; 4], f32, f32>(0, 32, 3);
    }

    #[kani::proof]
    #[kani::unwind(6)]
    pub fn alloc_default_min_size() {
        // min_size 128 (the default): f32 x 32 = 128 bytes is kept, f32 x 8 is freed by add()
        check_alloc::<f32, f32, f32>(128, 8, 32);
    }

    #[kani::proof]
    #[kani::unwind(6)]
    pub fn alloc_twice_same_type() {
        check_alloc_twice::<f32, f32, f32>(0, 8, 32);
    }

    #[kani::proof]
    #[kani::unwind(6)]
    pub fn alloc_twice_mixed_types() {
        check_alloc_twice::<u32, f32, u32>(0, 33, 33);
    }

    /// add(): the buffer is either kept (pool grows by one) or freed; never both, never twice.
    fn check_add(min_size: usize) {
        let pool = BufferPool::new().with_min_size(min_size);
        let v: Vec<f32> = Vec::with_capacity(8);
        let p = v.as_ptr();
        pool.add(v);
        let l1 = pool.len();
        assert!(l1 <= 1);
        pool.add(Vec::<u8>::with_capacity(33));
        pool.add(Vec::<u64>::new());
        let l2 = pool.len();
        assert!(l2 >= l1 && l2 <= l1 + 2);
        if l1 == 1 {
            let bufs = pool.buffers.lock().unwrap();
            assert!(bufs[0].ptr as *const f32 == p && bufs[0].capacity == 8);
        }
        std::mem::forget(pool);
    }

    #[kani::proof]
    #[kani::unwind(6)]
    pub fn add_keeps_or_frees_once() {
        // f32 x 8 = 32 bytes sits exactly at / just below the threshold
        check_add(32);
        check_add(33);
    }

    /// Dropping the pool releases every pooled buffer exactly once (through `Buffer::drop`).
    #[kani::proof]
    #[kani::unwind(6)]
    pub fn pool_drop_frees_each_buffer_once() {
        let pool = BufferPool::new().with_min_size(0);
        pool.add(Vec::<f32>::with_capacity(8));
        pool.add(Vec::<u64>::with_capacity(3));
        assert!(pool.len() == 2);
        drop(pool);
    }

    #[kani::proof]
    pub fn canary() {
        let x: u8 = kani::any();
        assert!(x != 7);
    }
}
