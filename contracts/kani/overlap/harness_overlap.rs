#[cfg(kani)]
mod verif_overlap {
    use super::*;

    /// Stand-in for std's sort_unstable (CBMC cannot finish symbolic execution of the std
    /// implementation on a symbolic-length slice). Assumption: std's sort returns a sorted
    /// permutation; this insertion sort does the same (checked by `sort_stub_sorts`).
    pub fn insertion_sort<T: Ord>(v: &mut [T]) {
        let n = v.len();
        let mut i = 1;
        while i < n {
            let mut j = i;
            while j > 0 && v[j - 1] > v[j] {
                v.swap(j - 1, j);
                j -= 1;
            }
            i += 1;
        }
    }

    #[kani::proof]
    #[kani::unwind(5)]
    pub fn sort_stub_sorts() {
        let mut v: [(usize, usize); 3] = kani::any();
        let orig = v;
        let n: usize = kani::any();
        kani::assume(n <= 3);
        insertion_sort(&mut v[..n]);
        for i in 1..n { assert!(v[i - 1] <= v[i]); }
        // permutation: every original element is still present the same number of times
        let k: usize = kani::any();
        kani::assume(k < n);
        let mut c0 = 0;
        let mut c1 = 0;
        for i in 0..n {
            if orig[i] == orig[k] { c0 += 1; }
            if v[i] == orig[k] { c1 += 1; }
        }
        assert!(c0 == c1);
    }

    fn any_small<const N: usize>() -> ([usize; N], [usize; N]) {
        let mut shape = [0usize; N];
        let mut strides = [0usize; N];
        for i in 0..N {
            let s: u8 = kani::any();
            kani::assume(s <= 4);
            shape[i] = s as usize;
            let st: u8 = kani::any();
            strides[i] = st as usize;
        }
        (shape, strides)
    }

    fn any_index<const N: usize>(shape: [usize; N]) -> [usize; N] {
        let mut idx = [0usize; N];
        for i in 0..N {
            let v: u8 = kani::any();
            idx[i] = v as usize;
            kani::assume(idx[i] < shape[i]);
        }
        idx
    }

    /// element-wise array inequality (avoids memcmp's byte loop, which would need unwind 8N+1)
    fn differ<const N: usize>(a: [usize; N], b: [usize; N]) -> bool {
        let mut d = false;
        for i in 0..N { d = d || a[i] != b[i]; }
        d
    }

    fn off<const N: usize>(idx: [usize; N], strides: [usize; N]) -> usize {
        let mut o = 0;
        for i in 0..N { o += idx[i] * strides[i]; }
        o
    }

    macro_rules! soundness {
        ($name:ident, $n:expr) => {
            /// Soundness: a layout accepted as non-overlapping maps distinct valid indices to
            /// distinct offsets.
            #[kani::proof]
            #[kani::unwind(12)]
            #[kani::stub(<[(usize, usize)]>::sort_unstable, insertion_sort)]
            pub fn $name() {
                let (shape, strides): ([usize; $n], [usize; $n]) = any_small();
                if !may_have_internal_overlap(shape, strides) {
                    let i = any_index(shape);
                    let j = any_index(shape);
                    if differ(i, j) {
                        assert!(off(i, strides) != off(j, strides), "accepted layout aliases two indices");
                        kani::cover!(true);
                    }
                }
            }
        };
    }
    soundness!(accepted_layout_is_injective_1, 1);
    soundness!(accepted_layout_is_injective_2, 2);
    soundness!(accepted_layout_is_injective_3, 3);

    /// Soundness for CONCRETE small shapes with symbolic strides: with the sizes fixed, the
    /// `size != 1` filter and the sort inside may_have_internal_overlap run on concrete lengths, so
    /// the real std sort is executed (no stub) and CBMC finishes quickly. Shapes cover equal sizes,
    /// size-1 dims in every position and non-square cases.
    macro_rules! soundness_concrete {
        ($name:ident, $n:expr, $shape:expr) => {
            #[kani::proof]
            #[kani::unwind(12)]
            pub fn $name() {
                let shape: [usize; $n] = $shape;
                let mut strides = [0usize; $n];
                for i in 0..$n { let st: u8 = kani::any(); strides[i] = st as usize; }
                if !may_have_internal_overlap(shape, strides) {
                    let i = any_index(shape);
                    let j = any_index(shape);
                    if differ(i, j) {
                        assert!(off(i, strides) != off(j, strides), "accepted layout aliases two indices");
                        kani::cover!(true);
                    }
                }
            }
        };
    }
    soundness_concrete!(accepted_is_injective_shape_2x2, 2, [2, 2]);
    soundness_concrete!(accepted_is_injective_shape_3x2, 2, [3, 2]);
    soundness_concrete!(accepted_is_injective_shape_2x3, 2, [2, 3]);
    soundness_concrete!(accepted_is_injective_shape_1x3, 2, [1, 3]);
    soundness_concrete!(accepted_is_injective_shape_3x1, 2, [3, 1]);
    soundness_concrete!(accepted_is_injective_shape_2x2x3, 3, [2, 2, 3]);
    soundness_concrete!(accepted_is_injective_shape_3x1x2, 3, [3, 1, 2]);
    soundness_concrete!(accepted_is_injective_shape_2x3x2, 3, [2, 3, 2]);

    /// Full-width rank 1/2: if the check accepts and the offsets do not wrap (max offset over
    /// the integers fits usize) then offsets computed over the integers are distinct.
    #[kani::proof]
    #[kani::unwind(12)]
    #[kani::stub(<[(usize, usize)]>::sort_unstable, insertion_sort)]
    #[kani::solver(z3)]
    pub fn accepted_layout_is_injective_full_width_2() {
        let shape: [usize; 2] = kani::any();
        let strides: [usize; 2] = kani::any();
        kani::assume(shape[0] >= 1 && shape[1] >= 1);
        // no-wrap hypothesis with checked usize arithmetic
        let zmax = (shape[0] - 1).checked_mul(strides[0]).and_then(|a| (shape[1] - 1).checked_mul(strides[1]).and_then(|b| a.checked_add(b)));
        kani::assume(zmax.is_some());
        if !may_have_internal_overlap(shape, strides) {
            let i: [usize; 2] = kani::any();
            let j: [usize; 2] = kani::any();
            kani::assume(i[0] < shape[0] && i[1] < shape[1] && j[0] < shape[0] && j[1] < shape[1]);
            if differ(i, j) {
                // cannot wrap: each index is < shape, so each product is <= the assumed maximum
                let oi = i[0].wrapping_mul(strides[0]).wrapping_add(i[1].wrapping_mul(strides[1]));
                let oj = j[0].wrapping_mul(strides[0]).wrapping_add(j[1].wrapping_mul(strides[1]));
                assert!(oi != oj, "accepted layout aliases two indices");
                kani::cover!(strides[0] > 1 << 33);
            }
        }
    }

    /// Completeness clause of the property: layouts obtained by permuting and slicing (with
    /// positive steps) a contiguous layout are always accepted.
    #[kani::proof]
    #[kani::unwind(12)]
    #[kani::stub(<[(usize, usize)]>::sort_unstable, insertion_sort)]
    pub fn sliced_permuted_contiguous_is_accepted_3() {
        let mut base = [0usize; 3];
        for i in 0..3 { let s: u8 = kani::any(); kani::assume(s <= 5); base[i] = s as usize; }
        let cs = [base[1] * base[2], base[2], 1];
        assert!(is_contiguous(&base, &cs));
        assert!(!may_have_internal_overlap(base, cs), "contiguous layout rejected");
        // slice each dim with a positive step (sub-range start..end)
        let mut shape = [0usize; 3];
        let mut strides = [0usize; 3];
        for i in 0..3 {
            let step: u8 = kani::any();
            kani::assume(step >= 1 && step <= 3);
            let len: u8 = kani::any();
            kani::assume((len as usize) <= base[i]);
            shape[i] = (len as usize + step as usize - 1) / step as usize;
            strides[i] = cs[i] * step as usize;
        }
        // permute
        let p: u8 = kani::any();
        kani::assume(p < 6);
        let perm = match p { 0 => [0, 1, 2], 1 => [0, 2, 1], 2 => [1, 0, 2], 3 => [1, 2, 0], 4 => [2, 0, 1], _ => [2, 1, 0] };
        let ps = [shape[perm[0]], shape[perm[1]], shape[perm[2]]];
        let pst = [strides[perm[0]], strides[perm[1]], strides[perm[2]]];
        assert!(!may_have_internal_overlap(ps, pst), "sliced/permuted contiguous layout rejected");
        kani::cover!(p == 3 && ps[0] > 1 && ps[1] > 1 && ps[2] > 1);
    }

    /// is_contiguous is exact w.r.t. the row-major definition (non-empty layouts).
    #[kani::proof]
    #[kani::unwind(12)]
    pub fn is_contiguous_exact_3() {
        let (shape, strides): ([usize; 3], [usize; 3]) = any_small();
        kani::assume(shape[0] >= 1 && shape[1] >= 1 && shape[2] >= 1);
        let want = (shape[2] == 1 || strides[2] == 1)
            && (shape[1] == 1 || strides[1] == shape[2])
            && (shape[0] == 1 || strides[0] == shape[1] * shape[2]);
        assert!(is_contiguous(&shape, &strides) == want);
    }

    #[kani::proof]
    pub fn canary() {
        let x: u8 = kani::any();
        assert!(x != 7);
    }
}
