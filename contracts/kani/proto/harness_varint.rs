#[cfg(kani)]
mod verif_varint {
    use super::*;
    use std::io::{BufRead, Read};

    pub const N: usize = 11;

    /// BufRead over N symbolic bytes whose `fill_buf` returns a *symbolic* non-empty chunk
    /// length each time (models BufReader refills at arbitrary points), and that counts how
    /// many bytes were consumed.
    pub struct ChunkReader {
        pub data: [u8; N],
        pub len: usize,
        pub pos: usize,
        pub fills: usize,
        pub mode: u8,
        pub split: usize,
    }

    impl Read for ChunkReader {
        fn read(&mut self, _buf: &mut [u8]) -> std::io::Result<usize> {
            unreachable!()
        }
    }

    impl BufRead for ChunkReader {
        fn fill_buf(&mut self) -> std::io::Result<&[u8]> {
            self.fills += 1;
            let remaining = self.len - self.pos;
            if remaining == 0 {
                return Ok(&[]);
            }
            // mode 0: everything that is left (Cursor); mode 1: one byte at a time (worst-case
            // refills); mode 2: one symbolic split point, then everything; mode 3: arbitrary.
            let chunk: usize = match self.mode {
                0 => remaining,
                1 => 1,
                2 => if self.fills == 1 { self.split.min(remaining).max(1) } else { remaining },
                _ => { let c: usize = kani::any(); kani::assume(c >= 1 && c <= remaining); c }
            };
            Ok(&self.data[self.pos..self.pos + chunk])
        }
        fn consume(&mut self, amount: usize) {
            assert!(self.pos + amount <= self.len, "consume past the filled buffer");
            self.pos += amount;
        }
    }

    fn value_is_exact(data: &[u8; N], n: usize, v: u64) -> bool {
        // every 7-bit group of v equals the payload of the corresponding byte and nothing
        // is set above the last group  <=>  v == sum (b_i & 0x7f) << 7i  (and the sum fits u64)
        let mut ok = true;
        let mut i = 0;
        while i < 10 {
            let group = if i < 9 { (v >> (7 * i)) & 0x7f } else { v >> 63 };
            let want = if i < n { (data[i] & 0x7f) as u64 } else { 0 };
            ok = ok && group == want;
            i += 1;
        }
        ok
    }

    fn check(mode: u8) {
        let data: [u8; N] = kani::any();
        let len: usize = kani::any();
        kani::assume(len <= N);
        let split: usize = kani::any();
        let mut rd = ChunkReader { data, len, pos: 0, fills: 0, mode, split };
        let r = read_varint(&mut rd);
        match r {
            Ok(v) => {
                let n = rd.pos;
                assert!(n >= 1 && n <= 10, "Ok consumes 1..=10 bytes");
                assert!(data[n - 1] <= 0x7f, "last byte has no continuation bit");
                assert!(value_is_exact(&data, n, v), "value is exact (fits 64 bits)");
                kani::cover!(n == 10);
                kani::cover!(n == 1);
            }
            Err(VarintError::Eof) => {
                assert!(rd.pos == len, "Eof only at end of input");
            }
            Err(VarintError::InvalidVarint) => {
                assert!(rd.pos <= 10, "never consumes more than 10 bytes");
                kani::cover!(true);
            }
            Err(VarintError::IoError(_)) => unreachable!(),
        }
        // linear time: at most one refill per byte consumed, +1 for the EOF probe
        assert!(rd.fills <= rd.pos + 2);
    }

    /// read_varint terminates (unwinding assertions on: every loop is closed by the bound
    /// 12 = MAX_VARINT_LEN + 2, an operand-width bound), never panics/overflows, consumes
    /// 1..=10 bytes on Ok, and Ok(v) is the exact little-endian base-128 value.
    #[kani::proof]
    #[kani::unwind(12)]
    pub fn read_varint_whole_buffer() { check(0) }

    #[kani::proof]
    #[kani::unwind(12)]
    pub fn read_varint_one_byte_refills() { check(1) }

    #[kani::proof]
    #[kani::unwind(12)]
    pub fn read_varint_one_split() { check(2) }

    #[kani::proof]
    #[kani::unwind(12)]
    pub fn read_varint_arbitrary_chunks() { check(3) }
}
