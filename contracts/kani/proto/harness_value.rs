#[cfg(kani)]
mod verif_value {
    use super::*;

    /// Minimal ReadValue whose position is fully symbolic; only `position` matters to
    /// LimitReader's own arithmetic.
    pub struct SymReader {
        pub pos: u64,
    }
    impl ReadValue for SymReader {
        type Types = OwnedValues;
        fn read_i32(&mut self) -> Result<i32, ProtobufError> { self.pos = self.pos.wrapping_add(4); Ok(kani::any()) }
        fn read_i64(&mut self) -> Result<i64, ProtobufError> { self.pos = self.pos.wrapping_add(8); Ok(kani::any()) }
        fn read_varint(&mut self) -> Result<u64, ProtobufError> { self.pos = self.pos.wrapping_add(1); Ok(kani::any()) }
        fn read_bytes(&mut self, len: usize) -> Result<Vec<u8>, ProtobufError> { self.pos = self.pos.wrapping_add(len as u64); Ok(Vec::new()) }
        fn read_string(&mut self, len: usize) -> Result<String, ProtobufError> { self.pos = self.pos.wrapping_add(len as u64); Ok(String::new()) }
        fn skip(&mut self, len: usize) -> Result<(), ProtobufError> { self.pos = self.pos.wrapping_add(len as u64); Ok(()) }
        fn position(&self) -> u64 { self.pos }
    }

    /// Twin of the Verus obligation check_has_bytes.exact: gives a concrete counterexample.
    #[kani::proof_for_contract(LimitReader::check_has_bytes)]
    pub fn check_has_bytes_contract() {
        let mut inner = SymReader { pos: kani::any() };
        let end: u64 = kani::any();
        let len: usize = kani::any();
        let rd = LimitReader { inner: &mut inner, end };
        let _ = rd.check_has_bytes(len);
    }

    /// Twin of new.end_exact / sub_limit.end_exact (loop-free, full domain).
    #[kani::proof]
    pub fn limit_reader_new_sub_limit() {
        let pos: u64 = kani::any();
        let len: u64 = kani::any();
        let mut inner = SymReader { pos };
        let want = core::cmp::min(pos as u128 + len as u128, u64::MAX as u128);
        let mut rd = LimitReader::new(&mut inner, len);
        assert!(rd.end as u128 == want);
        let len2: u64 = kani::any();
        let want2 = core::cmp::min(pos as u128 + len2 as u128, u64::MAX as u128);
        let sub = rd.sub_limit(len2);
        assert!(sub.end as u128 == want2);
    }

    pub const B: usize = 8;

    /// ValueReader::skip over an in-memory buffer: never moves backwards, and a successful
    /// skip of `len` bytes ends at pos+len (over the integers).
    #[kani::proof]
    pub fn value_reader_skip_forward() {
        let data: [u8; B] = kani::any();
        let n: usize = kani::any();
        kani::assume(n <= B);
        let mut rd = ValueReader::from_buf(&data[..n]);
        let start: usize = kani::any();
        kani::assume(start <= n);
        if start > 0 {
            let _ = rd.skip(start);
        }
        let p0 = rd.position();
        kani::assume(p0 == start as u64);
        let len: usize = kani::any();
        let r = rd.skip(len);
        let p1 = rd.position();
        if r.is_ok() {
            assert!(p1 as u128 == p0 as u128 + len as u128, "Ok(skip) advances by exactly len");
            kani::cover!(len > 0);
        }
    }

    /// "field lengths larger than the remaining input are errors": a successful skip on a
    /// buffer-backed reader stays inside the buffer.
    #[kani::proof]
    pub fn value_reader_skip_within_input() {
        let data: [u8; B] = kani::any();
        let n: usize = kani::any();
        kani::assume(n <= B);
        let mut rd = ValueReader::from_buf(&data[..n]);
        let len: usize = kani::any();
        let r = rd.skip(len);
        if r.is_ok() {
            assert!(rd.position() <= n as u64, "Ok(skip) must not pass the end of the input");
            kani::cover!(len == n);
        }
    }

    /// read_bytes with an untrusted length: no panic (in particular no capacity-overflow
    /// panic from allocating `len` bytes up front), and Ok(v) => v is exactly the next `len`
    /// bytes of the input, so len <= remaining input.
    #[kani::proof]
    #[kani::unwind(12)]
    pub fn value_reader_read_bytes_bounded_by_input() {
        let data: [u8; 4] = kani::any();
        let n: usize = kani::any();
        kani::assume(n <= 4);
        let mut rd = ValueReader::from_buf(&data[..n]);
        let len: usize = kani::any();
        let r = rd.read_bytes(len);
        if let Ok(v) = r {
            assert!(len <= n, "Ok(read_bytes(len)) needs len bytes of input");
            assert!(v.len() == len);
            assert!(rd.position() == len as u64);
            kani::cover!(len == 3);
        }
    }

    #[kani::proof]
    pub fn canary() {
        let x: u8 = kani::any();
        assert!(x != 7);
    }
}
