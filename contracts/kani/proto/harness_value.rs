#[cfg(kani)]
mod verif_value {
    use super::*;

    /// Minimal ReadValue whose position is fully symbolic; only `position` matters to LimitReader's
    /// own arithmetic.
    pub struct SymReader {
        pub pos: u64,
    }
    impl ReadValue for SymReader {
        type Types = OwnedValues;
        fn read_i32(&mut self) -> Result<i32, ProtobufError> { self.pos = self.pos.wrapping_add(4); Ok(kani::any()) }
        fn read_i64(&mut self) -> Result<i64, ProtobufError> { self.pos = self.pos.wrapping_add(8); Ok(kani::any()) }
        fn read_varint(&mut self) -> Result<u64, ProtobufError> { self.pos = self.pos.wrapping_add(1); Ok(kani::any()) }
        fn read_bytes(&mut self, len: usize) -> Result<Vec<u8>, ProtobufError> { self.pos = self.pos.wrapping_add(len as u64); Ok(Vec::new()) }
        fn read_string(&mut self, len: usize) -> Result<String, ProtobufError> { self.pos = self.pos.wrapping_add(len as u64); Ok(String::new()) }
        fn skip(&mut self, len: usize) -> Result<(), ProtobufError> { self.pos = self.pos.wrapping_add(len as u64); Ok(()) }
        fn position(&self) -> u64 { self.pos }
    }

    #[kani::proof_for_contract(LimitReader::check_has_bytes)]
    fn check_has_bytes_contract() {
        let mut inner = SymReader { pos: kani::any() };
        let end: u64 = kani::any();
        let len: usize = kani::any();
        let rd = LimitReader { inner: &mut inner, end };
        let _ = rd.check_has_bytes(len);
    }

    #[kani::proof]
    fn canary() {
        let x: u8 = kani::any();
        assert!(x != 7);
    }
}
