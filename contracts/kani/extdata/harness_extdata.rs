#[cfg(kani)]
mod verif_extdata {
    use super::*;
    use std::os::unix::ffi::OsStrExt;

    // ------------------------------------------------------------------ path predicate

    /// Specification (Unix path semantics), independent of std::path: `dir.join(p)` names an entry
    /// directly inside `dir`, written without `..`, not absolute, and the entry's name has a
    /// recognised data extension (text after the last '.', which is not the first byte of the
    /// name, starts with "data" or "onnx_data").
    fn starts_with(s: &[u8], pre: &[u8]) -> bool {
        if s.len() < pre.len() {
            return false;
        }
        let mut i = 0;
        while i < pre.len() {
            if s[i] != pre[i] {
                return false;
            }
            i += 1;
        }
        true
    }

    fn spec_allowed(p: &[u8]) -> bool {
        if p.is_empty() || p[0] == b'/' {
            return false; // empty or absolute
        }
        let mut normal = 0usize; // number of segments that are neither empty nor "."
        let mut name_start = 0usize;
        let mut name_end = 0usize;
        let mut seg_start = 0usize;
        let mut i = 0usize;
        while i <= p.len() {
            if i == p.len() || p[i] == b'/' {
                let seg = &p[seg_start..i];
                if seg.len() == 2 && seg[0] == b'.' && seg[1] == b'.' {
                    return false; // traversal
                }
                if !(seg.is_empty() || (seg.len() == 1 && seg[0] == b'.')) {
                    normal += 1;
                    name_start = seg_start;
                    name_end = i;
                }
                seg_start = i + 1;
            }
            i += 1;
        }
        if normal != 1 {
            return false; // nothing, or a sub-directory
        }
        let name = &p[name_start..name_end];
        let mut dot = 0usize; // index of last '.', 0 = none that counts
        let mut j = 1usize;
        while j < name.len() {
            if name[j] == b'.' {
                dot = j;
            }
            j += 1;
        }
        if dot == 0 {
            return false;
        }
        let ext = &name[dot + 1..];
        starts_with(ext, b"data") || starts_with(ext, b"onnx_data")
    }

    fn check_predicate<const N: usize>(bytes: [u8; N]) {
        let n: usize = kani::any();
        kani::assume(n <= N);
        let s = &bytes[..n];
        let allowed = is_allowed_external_data_path(Path::new(std::ffi::OsStr::from_bytes(s)));
        if allowed {
            assert!(spec_allowed(s), "path accepted although it is not a plain data-file name inside the model directory");
        }
        kani::cover!(allowed);
        kani::cover!(!allowed && n == N);
    }

    pub const N_ANY: usize = 7;

    /// every byte string of length <= N_ANY (incl. NUL, '\\', ':', non-UTF-8)
    #[kani::proof]
    #[kani::unwind(10)]
    pub fn path_predicate_any_bytes() {
        let bytes: [u8; N_ANY] = kani::any();
        check_predicate(bytes);
    }

    pub const N_ALPHA: usize = 12;
    const ALPHABET: [u8; 16] = [
        b'/', b'.', b'\\', b':', 0, b'a', b'd', b't', b'o', b'n', b'x', b'_', b'1', b' ', 0xC3, 0xA9,
    ];

    /// strings of length <= N_ALPHA over an alphabet that can spell "x.onnx_data_1", separators,
    /// "..", Windows-style prefixes, NUL and a two-byte UTF-8 character
    #[kani::proof]
    #[kani::unwind(15)]
    pub fn path_predicate_alphabet() {
        let mut bytes = [0u8; N_ALPHA];
        let mut i = 0;
        while i < N_ALPHA {
            let k: u8 = kani::any();
            kani::assume((k as usize) < ALPHABET.len());
            bytes[i] = ALPHABET[k as usize];
            i += 1;
        }
        check_predicate(bytes);
        kani::cover!(bytes[2] == b'o' && bytes[10] == b'a');
    }

    // ------------------------------------------------------------------ loaders

    /// `RandomState::new` reads OS randomness (foreign call, unsupported by Kani): fixed keys.
    pub fn fixed_random_state() -> std::hash::RandomState {
        unsafe { std::mem::transmute::<[u64; 2], std::hash::RandomState>([0x0123_4567_89ab_cdef, 0x0f1e_2d3c_4b5a_6978]) }
    }

    pub const STORAGE: usize = 8;
    const GOOD: &str = "m.data";

    /// storage of symbolic length k <= STORAGE without a symbolic-size allocation
    fn any_storage() -> (Arc<ConstantStorage>, usize) {
        let mut buf = vec![0u8; STORAGE];
        let k: usize = kani::any();
        kani::assume(k <= STORAGE);
        buf.truncate(k);
        (Arc::new(ConstantStorage::Buffer(buf)), k)
    }

    /// Ok(slice) => slice is exactly [offset, offset+length) computed over the integers, inside
    /// the registered storage; reading it does not panic.
    fn check_range(r: Result<DataSlice, ExternalDataError>, storage: &Arc<ConstantStorage>, k: usize, offset: u64, length: u64) {
        match r {
            Ok(slice) => {
                assert!(Arc::ptr_eq(&slice.storage, storage), "data taken from another file");
                assert!(slice.bytes.start as u128 == offset as u128, "slice does not start at offset");
                assert!(slice.bytes.end as u128 == offset as u128 + length as u128, "slice does not end at offset+length");
                assert!(slice.bytes.end <= k, "slice extends past the end of the file");
                assert!(slice.data().len() as u64 == length);
                kani::cover!(offset > 0 && length > 0);
                kani::cover!(offset as usize == k);
            }
            Err(_) => {
                kani::cover!(offset.checked_add(length).is_none()); // overflowing sum is in the domain
                kani::cover!(offset <= k as u64 && length <= k as u64);
            }
        }
    }

    #[kani::proof]
    #[kani::unwind(12)]
    #[kani::stub(std::hash::RandomState::new, fixed_random_state)]
    pub fn mem_loader_range() {
        let (storage, k) = any_storage();
        let mut map = HashMap::new();
        map.insert(GOOD.to_string(), storage.clone());
        let loader = MemLoader::new(map);
        let offset: u64 = kani::any();
        let length: u64 = kani::any();
        let r = loader.load(&DataLocation { path: GOOD.to_string(), offset, length });
        check_range(r, &storage, k, offset, length);
    }

    #[cfg(feature = "mmap")]
    #[kani::proof]
    #[kani::unwind(12)]
    #[kani::stub(std::hash::RandomState::new, fixed_random_state)]
    pub fn mmap_loader_range() {
        // The real MmapLoader::load / get_or_open_mmap run on an already-open entry, so no file is
        // mapped; the entry's storage is an in-memory buffer (same `storage.data()` interface).
        let (storage, k) = any_storage();
        let mut map: HashMap<PathBuf, (PathBuf, Arc<ConstantStorage>)> = HashMap::new();
        map.insert(PathBuf::from(GOOD), (PathBuf::from(GOOD), storage.clone()));
        let loader = MmapLoader { dir_path: PathBuf::new(), mmaps: RefCell::new(map) };
        let offset: u64 = kani::any();
        let length: u64 = kani::any();
        let r = loader.load(&DataLocation { path: GOOD.to_string(), offset, length });
        check_range(r, &storage, k, offset, length);
    }

    /// Locations the predicate rejects (checked against the real predicate first, so this harness
    /// only decides "the loader consults the predicate before using the location").
    const BAD: [&str; 6] = ["../m.data", "/m.data", "d/m.data", "m.data/..", "m.txt", ""];

    #[kani::proof]
    #[kani::unwind(12)]
    #[kani::stub(std::hash::RandomState::new, fixed_random_state)]
    pub fn mem_loader_path_gate() {
        let mut i = 0;
        while i < BAD.len() {
            let bad = BAD[i];
            assert!(!is_allowed_external_data_path(Path::new(bad)));
            // the data *is* registered under the bad name: only the path check can refuse it
            let storage = Arc::new(ConstantStorage::Buffer(vec![0u8; 4]));
            let mut map = HashMap::new();
            map.insert(bad.to_string(), storage);
            let loader = MemLoader::new(map);
            let r = loader.load(&DataLocation { path: bad.to_string(), offset: 0, length: 4 });
            assert!(r.is_err(), "MemLoader served a disallowed location");
            i += 1;
        }
    }

    #[cfg(feature = "mmap")]
    #[kani::proof]
    #[kani::unwind(12)]
    #[kani::stub(std::hash::RandomState::new, fixed_random_state)]
    pub fn mmap_loader_path_gate() {
        let mut i = 0;
        while i < BAD.len() {
            let bad = BAD[i];
            let storage = Arc::new(ConstantStorage::Buffer(vec![0u8; 4]));
            let mut map: HashMap<PathBuf, (PathBuf, Arc<ConstantStorage>)> = HashMap::new();
            map.insert(PathBuf::from(bad), (PathBuf::from(bad), storage));
            let loader = MmapLoader { dir_path: PathBuf::new(), mmaps: RefCell::new(map) };
            let r = loader.load(&DataLocation { path: bad.to_string(), offset: 0, length: 4 });
            assert!(r.is_err(), "MmapLoader served a disallowed location");
            i += 1;
        }
    }

    /// FileLoader: a rejected location or an over-long length is an error *before* any file-system
    /// access (File::open is a foreign call: reaching it would fail this harness as unsupported).
    #[kani::proof]
    #[kani::unwind(12)]
    #[kani::stub(std::hash::RandomState::new, fixed_random_state)]
    pub fn file_loader_gates() {
        let loader = FileLoader { dir_path: PathBuf::from("/models"), files: RefCell::new(HashMap::new()) };
        let mut i = 0;
        while i < BAD.len() {
            let r = loader.read(&DataLocation { path: BAD[i].to_string(), offset: 0, length: 4 });
            assert!(r.is_err(), "FileLoader accepted a disallowed location");
            i += 1;
        }
        let offset: u64 = kani::any();
        let length: u64 = kani::any();
        kani::assume(length > isize::MAX as u64);
        let r = loader.read(&DataLocation { path: GOOD.to_string(), offset, length });
        assert!(r.is_err(), "FileLoader accepted a length above isize::MAX");
        kani::cover!(length == u64::MAX);
    }

    // ------------------------------------------------------------------ read_fill

    /// A reader that honours the `Read` contract (returns n <= buf.len()) but is otherwise
    /// arbitrary: short reads, EOF at any point, errors.
    struct AnyReader {
        budget: usize,
    }
    impl Read for AnyReader {
        fn read(&mut self, buf: &mut [u8]) -> std::io::Result<usize> {
            if kani::any() {
                return Err(std::io::Error::from(std::io::ErrorKind::Other));
            }
            let n: usize = kani::any();
            kani::assume(n <= buf.len() && n <= self.budget);
            self.budget -= n;
            Ok(n)
        }
    }

    pub const FILL: usize = 4;

    #[kani::proof]
    #[kani::unwind(7)]
    pub fn read_fill_within_buffer() {
        let mut buf = [0u8; FILL];
        let len: usize = kani::any();
        kani::assume(len <= FILL);
        let mut src = AnyReader { budget: kani::any() };
        let r = read_fill(&mut src, &mut buf[..len]);
        if let Ok(total) = r {
            assert!(total <= len, "read_fill reports more bytes than the buffer holds");
            kani::cover!(total == FILL);
            kani::cover!(total < len);
        }
    }

    #[kani::proof]
    pub fn canary() {
        let x: u8 = kani::any();
        assert!(x != 7);
    }
}
