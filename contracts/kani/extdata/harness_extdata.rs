#[cfg(kani)]
mod verif_extdata {
    use super::*;
    use std::os::unix::ffi::OsStrExt;

    // ------------------------------------------------------------------ path predicate

    /// Specification (Unix path semantics), independent of std::path: `dir.join(p)` names an entry
    /// directly inside `dir`, written without `..`, not absolute, and the entry's name has a
    /// recognised data extension (text after the last '.', which is not the first byte of the
    /// name, starts with "data" or "onnx_data").
    fn starts_with(s: &[u8], pre: &[u8]) -> bool {
        if s.len() < pre.len() {
            return false;
        }
        let mut i = 0;
        while i < pre.len() {
            if s[i] != pre[i] {
                return false;
            }
            i += 1;
        }
        true
    }

    fn spec_allowed(p: &[u8]) -> bool {
        if p.is_empty() || p[0] == b'/' {
            return false; // empty or absolute
        }
        let mut normal = 0usize; // number of segments that are neither empty nor "."
        let mut name_start = 0usize;
        let mut name_end = 0usize;
        let mut seg_start = 0usize;
        let mut i = 0usize;
        while i <= p.len() {
            if i == p.len() || p[i] == b'/' {
                let seg = &p[seg_start..i];
                if seg.len() == 2 && seg[0] == b'.' && seg[1] == b'.' {
                    return false; // traversal
                }
                if !(seg.is_empty() || (seg.len() == 1 && seg[0] == b'.')) {
                    normal += 1;
                    name_start = seg_start;
                    name_end = i;
                }
                seg_start = i + 1;
            }
            i += 1;
        }
        if normal != 1 {
            return false; // nothing, or a sub-directory
        }
        let name = &p[name_start..name_end];
        let mut dot = 0usize; // index of last '.', 0 = none that counts
        let mut j = 1usize;
        while j < name.len() {
            if name[j] == b'.' {
                dot = j;
            }
            j += 1;
        }
        if dot == 0 {
            return false;
        }
        let ext = &name[dot + 1..];
        starts_with(ext, b"data") || starts_with(ext, b"onnx_data")
    }

    /// `true => spec` for one byte string (every byte value is allowed in a Unix path).
    fn check_predicate(s: &[u8]) -> bool {
        let allowed = is_allowed_external_data_path(Path::new(std::ffi::OsStr::from_bytes(s)));
        if allowed {
            assert!(spec_allowed(s), "path accepted although it is not a plain data-file name inside the model directory");
        }
        allowed
    }

    /// every byte string of exactly N bytes (incl. NUL, backslash, colon, non-UTF-8)
    fn check_all_strings<const N: usize>() {
        let bytes: [u8; N] = kani::any();
        let _ = check_predicate(&bytes);
    }

    #[kani::proof]
    #[kani::unwind(4)]
    pub fn path_predicate_len1() { check_all_strings::<1>() }
    #[kani::proof]
    #[kani::unwind(5)]
    pub fn path_predicate_len2() { check_all_strings::<2>() }
    #[kani::proof]
    #[kani::unwind(6)]
    pub fn path_predicate_len3() { check_all_strings::<3>() }
    #[kani::proof]
    #[kani::unwind(7)]
    pub fn path_predicate_len4() { check_all_strings::<4>() }

    /// "?m.data": any first byte in front of a well-formed name (absolute path, "./", ...)
    #[kani::proof]
    #[kani::unwind(10)]
    pub fn path_predicate_any_first_byte() {
        let x: u8 = kani::any();
        let bytes = [x, b'm', b'.', b'd', b'a', b't', b'a'];
        let allowed = check_predicate(&bytes);
        kani::cover!(allowed);
        kani::cover!(!allowed);
    }

    /// "d?m.data": any byte between two name characters (separator => sub-directory)
    #[kani::proof]
    #[kani::unwind(11)]
    pub fn path_predicate_any_inner_byte() {
        let x: u8 = kani::any();
        let bytes = [b'd', x, b'm', b'.', b'd', b'a', b't', b'a'];
        let allowed = check_predicate(&bytes);
        kani::cover!(allowed);
        kani::cover!(!allowed);
    }

    /// Concrete adversarial and well-formed locations (incl. the longer recognised extensions),
    /// in three groups to keep each CBMC run small.
    fn check_samples<const N: usize>(samples: [&str; N]) -> usize {
        let mut n_allowed = 0;
        let mut i = 0;
        while i < N {
            if check_predicate(samples[i].as_bytes()) {
                n_allowed += 1;
            }
            i += 1;
        }
        n_allowed
    }

    #[kani::proof]
    #[kani::unwind(15)]
    pub fn path_predicate_samples_wellformed_a() {
        let n = check_samples(["m.data", "m.data/", "m.data/."]);
        kani::cover!(n >= 1);
    }

    #[kani::proof]
    #[kani::unwind(15)]
    pub fn path_predicate_samples_wellformed_b() {
        let n = check_samples(["m.onnx_data_1", "m.onnx.data"]);
        kani::cover!(n >= 1);
    }

    #[kani::proof]
    #[kani::unwind(15)]
    pub fn path_predicate_samples_traversal() {
        let n = check_samples(["../m.data", "/m.data", "d/m.data", "m.data/..", "d/../m.data", "./../m.data"]);
        kani::cover!(n == 0);
    }

    #[kani::proof]
    #[kani::unwind(15)]
    pub fn path_predicate_samples_extensions() {
        let n = check_samples(["m.xdata", "m.txt", "data"]);
        kani::cover!(n == 0);
    }

    #[kani::proof]
    #[kani::unwind(15)]
    pub fn path_predicate_samples_names() {
        let n = check_samples(["m.data/x", "..data/../m", ".data", "m."]);
        kani::cover!(n == 0);
    }

    // ------------------------------------------------------------------ loaders
    // NOT CHECKED (tool limit, see units.d/extdata.json "not_decided"): MemLoader::load,
    // MmapLoader::load and FileLoader::read all go through a std HashMap. Under CBMC a single
    // String-key `insert` takes 17 min, `insert`+`get` exceeds 20 GB / 45 min without a result,
    // and `#[kani::stub(std::collections::HashMap::get, ..)]` is rejected by Kani 0.68
    // ("Expected type `&HashMap<K, V, S, A>` ... found `&HashMap<K, V, S, A>`").

    // ------------------------------------------------------------------ read_fill

    /// A reader that honours the `Read` contract (returns n <= buf.len()) but is otherwise
    /// arbitrary: short reads, EOF at any point, errors.
    struct AnyReader {
        budget: usize,
    }
    impl Read for AnyReader {
        fn read(&mut self, buf: &mut [u8]) -> std::io::Result<usize> {
            if kani::any() {
                return Err(std::io::Error::from(std::io::ErrorKind::Other));
            }
            let n: usize = kani::any();
            kani::assume(n <= buf.len() && n <= self.budget);
            self.budget -= n;
            Ok(n)
        }
    }

    pub const FILL: usize = 4;

    #[kani::proof]
    #[kani::unwind(7)]
    pub fn read_fill_within_buffer() {
        let mut buf = [0u8; FILL];
        let len: usize = kani::any();
        kani::assume(len <= FILL);
        let mut src = AnyReader { budget: kani::any() };
        let r = read_fill(&mut src, &mut buf[..len]);
        if let Ok(total) = r {
            assert!(total <= len, "read_fill reports more bytes than the buffer holds");
            kani::cover!(total == FILL);
            kani::cover!(total < len);
        }
    }

    #[kani::proof]
    pub fn canary() {
        let x: u8 = kani::any();
        assert!(x != 7);
    }
}
