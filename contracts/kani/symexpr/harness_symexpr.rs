#[cfg(kani)]
mod verif_symexpr {
    use super::*;

    /// div_ceil is exact ceiling division over the whole i32 x i32 domain (except the single
    /// overflowing quotient MIN / -1 and division by zero, which `eval` guards against).
    /// This discharges the contract assumed for `div_ceil` in contracts/verus/symexpr.rs.
    #[kani::proof]
    #[kani::solver(z3)]
    pub fn div_ceil_exact() {
        let a: i32 = kani::any();
        let b: i32 = kani::any();
        kani::assume(b != 0 && !(a == i32::MIN && b == -1));
        let r = div_ceil(a, b);
        // ceiling of the exact quotient: truncated quotient, plus one when the division is
        // inexact and the exact quotient is positive (remainder and divisor have the same sign)
        let (q, rem) = (a / b, a % b);
        let want = if rem != 0 && ((rem > 0) == (b > 0)) { q + 1 } else { q };
        assert!(r == want, "r == ceil(a / b)");
        kani::cover!(a < 0 && b < 0 && a % b != 0);
    }

    #[kani::proof]
    pub fn canary() {
        let x: u8 = kani::any();
        assert!(x != 7);
    }
}
