#[cfg(kani)]
mod verif_symexpr {
    use super::*;

    /// div_ceil is exact ceiling division over the whole i32 x i32 domain (except the single
    /// overflowing quotient MIN / -1 and division by zero, which `eval` guards against).
    /// This discharges the contract assumed for `div_ceil` in contracts/verus/symexpr.rs.
    #[kani::proof]
    pub fn div_ceil_exact() {
        let a: i32 = kani::any();
        let b: i32 = kani::any();
        kani::assume(b != 0 && !(a == i32::MIN && b == -1));
        let r = div_ceil(a, b);
        // ceiling of the exact quotient: truncated quotient, plus one when the division is
        // inexact and the exact quotient is positive (remainder and divisor have the same sign)
        let (q, rem) = (a / b, a % b);
        let want = if rem != 0 && ((rem > 0) == (b > 0)) { q + 1 } else { q };
        assert!(r == want, "r == ceil(a / b)");
        kani::cover!(a < 0 && b < 0 && a % b != 0);
    }

    /// Counterexample twin of the Verus obligation range.sound on constant trees
    /// op(Value a, Value b) and Neg(op(..)): whenever the i32 reference semantics does not
    /// overflow, the value lies in range() and is >= 0 if is_positive(). Gives concrete inputs
    /// for replay (symbol leaves are left to the Verus proof: String/SmallVec make them too
    /// expensive for CBMC).
    fn twin(op: u8) {
        let (a, b): (i32, i32) = (kani::any(), kani::any());
        let neg: bool = kani::any();
        let (l, r) = (Arc::new(SymExpr::Value(a)), Arc::new(SymExpr::Value(b)));
        let e0 = match op {
            0 => SymExpr::Add(l, r),
            1 => SymExpr::Sub(l, r),
            2 => SymExpr::Mul(l, r),
            3 => SymExpr::Div(l, r),
            4 => SymExpr::DivCeil(l, r),
            5 => SymExpr::Max(l, r),
            6 => SymExpr::Min(l, r),
            _ => SymExpr::Broadcast(l, r),
        };
        let e = if neg { SymExpr::Neg(Arc::new(e0)) } else { e0 };
        let (a, b) = (a as i64, b as i64);
        let v: Option<i64> = match op {
            0 => Some(a + b),
            1 => Some(a - b),
            2 => Some(a * b),
            3 => if b == 0 { None } else { Some(a / b) },
            4 => if b == 0 { None } else { Some(if (a % b != 0) && ((a < 0) == (b < 0)) { a / b + 1 } else { a / b }) },
            5 => Some(a.max(b)),
            6 => Some(a.min(b)),
            _ => if a >= 0 && b >= 0 { Some(a.max(b)) } else { None }, // Broadcast operands are >= 0 by definition
        };
        let Some(inner) = v else { return; };
        kani::assume(inner >= i32::MIN as i64 && inner <= i32::MAX as i64);
        let v = if neg { -inner } else { inner };
        kani::assume(v >= i32::MIN as i64 && v <= i32::MAX as i64);
        let (lo, hi) = e.range();
        assert!(lo as i64 <= v && v <= hi as i64, "range() contains the evaluated value");
        if e.is_positive() {
            assert!(v >= 0, "is_positive() expression evaluated negative");
        }
        kani::cover!(v != 0);
    }

    #[kani::proof] pub fn range_twin_add() { twin(0) }
    #[kani::proof] pub fn range_twin_sub() { twin(1) }
    #[kani::proof] pub fn range_twin_mul() { twin(2) }
    #[kani::proof] pub fn range_twin_div() { twin(3) }
    #[kani::proof] pub fn range_twin_div_ceil() { twin(4) }
    #[kani::proof] pub fn range_twin_max() { twin(5) }
    #[kani::proof] pub fn range_twin_min() { twin(6) }
    #[kani::proof] pub fn range_twin_broadcast() { twin(7) }

    #[kani::proof]
    pub fn canary() {
        let x: u8 = kani::any();
        assert!(x != 7);
    }
}
