#[cfg(kani)]
mod verif_filters {
    use super::*;
    use rten_simd::isa::{Avx2Isa, Avx512Isa, GenericIsa};
    use std::cmp::Ordering;

    // ---------------------------------------------------------------- CPU model (stubs)
    // `TopK::filter` selects an instruction set at run time (`SimdOp::dispatch`). Kani can
    // execute neither the CPU probing (cpuid) nor AVX intrinsics, so the two probing
    // constructors are replaced by "this CPU has neither AVX2 nor AVX-512"; `dispatch` then
    // takes its portable `GenericIsa` branch (4 lanes), which is real rten code.
    pub fn no_avx2() -> Option<Avx2Isa> {
        None
    }
    pub fn no_avx512() -> Option<Avx512Isa> {
        None
    }

    // ---------------------------------------------------------------- helpers
    /// Every bit pattern: finite, subnormal, +-0, +-inf, quiet/signalling NaN of both signs.
    fn any_f32() -> f32 {
        f32::from_bits(kani::any::<u32>())
    }

    fn any_logits<const N: usize>() -> [f32; N] {
        let mut v = [0.0f32; N];
        let mut i = 0;
        while i < N {
            v[i] = any_f32();
            i += 1;
        }
        v
    }

    /// Dense logits (token ids 0..N), so that a token id identifies its input position.
    fn dense<const N: usize>(vals: &[f32; N]) -> Logits {
        let mut ids = Vec::with_capacity(N);
        let mut i = 0;
        while i < N {
            ids.push(i as u32);
            i += 1;
        }
        Logits::sparse(vals.to_vec(), ids)
    }

    fn has_nan<const N: usize>(vals: &[f32; N]) -> bool {
        let mut r = false;
        let mut i = 0;
        while i < N {
            r = r || vals[i].is_nan();
            i += 1;
        }
        r
    }

    /// `out` is a sub-multiset of the input: every kept id is an input position, occurs at
    /// most once and carries that position's score bit-for-bit.
    fn is_submultiset<const N: usize>(vals: &[f32; N], out: &Logits) -> bool {
        let ids = out.indices();
        let ls = out.logits();
        let m = ids.len();
        let mut ok = ls.len() == m && m <= N;
        let mut a = 0;
        while a < m && a < N {
            let id = ids[a] as usize;
            ok = ok && id < N && ls[a].to_bits() == vals[id % N].to_bits();
            let mut b = a + 1;
            while b < m && b < N {
                ok = ok && ids[a] != ids[b];
                b += 1;
            }
            a += 1;
        }
        ok
    }

    fn is_kept<const N: usize>(out: &Logits, pos: usize) -> bool {
        let ids = out.indices();
        let mut r = false;
        let mut a = 0;
        while a < ids.len() && a < N {
            r = r || ids[a] as usize == pos;
            a += 1;
        }
        r
    }

    /// No dropped score is greater than a kept score. `total`: compare in the IEEE total order
    /// (`f32::total_cmp`), else with `<=` (meaningful without NaN; differs from the total
    /// order only in that -0.0 and +0.0 are equal).
    fn dropped_le_kept<const N: usize>(vals: &[f32; N], out: &Logits, total: bool) -> bool {
        let ls = out.logits();
        let mut ok = true;
        let mut p = 0;
        while p < N {
            if !is_kept::<N>(out, p) {
                let mut q = 0;
                while q < ls.len() && q < N {
                    if total {
                        ok = ok && vals[p].total_cmp(&ls[q]) != Ordering::Greater;
                    } else {
                        ok = ok && vals[p] <= ls[q];
                    }
                    q += 1;
                }
            }
            p += 1;
        }
        ok
    }

    fn sorted_desc_total<const N: usize>(out: &Logits) -> bool {
        let ls = out.logits();
        let mut ok = true;
        let mut a = 0;
        while a + 1 < ls.len() && a < N {
            ok = ok && ls[a].total_cmp(&ls[a + 1]) != Ordering::Less;
            a += 1;
        }
        ok
    }

    fn same_logits<const N: usize>(x: &Logits, y: &Logits) -> bool {
        let mut ok = x.len() == y.len() && x.indices().len() == y.indices().len();
        let mut a = 0;
        while a < x.len() && a < y.len() && a < N {
            ok = ok && x.indices()[a] == y.indices()[a] && x.logits()[a].to_bits() == y.logits()[a].to_bits();
            a += 1;
        }
        ok
    }

    // ---------------------------------------------------------------- TopK
    /// Clauses of "Top-K keeps exactly min(K, n) candidates whose scores are the K largest,
    /// sorted in descending order", for one concrete (n, k) and N symbolic scores.
    /// `total_order`: additionally demand "K largest" in the total order with NaN and signed
    /// zeros (separate obligation).
    fn topk_contract<const N: usize>(k: usize, total_order: bool) {
        let vals = any_logits::<N>();
        let out = TopK::new(k).filter(dense(&vals), &[]);
        let want = if k < N { k } else { N };
        assert!(out.len() == want, "keeps exactly min(k, n) candidates");
        assert!(is_submultiset(&vals, &out), "kept candidates are distinct input candidates with their own scores");
        assert!(sorted_desc_total::<N>(&out), "output is sorted in descending total order");
        if !has_nan(&vals) {
            assert!(dropped_le_kept(&vals, &out, false), "without NaN: no dropped score exceeds a kept score");
        }
        if total_order {
            assert!(dropped_le_kept(&vals, &out, true), "kept scores are the k largest in the total order (NaN, signed zeros)");
        }
        kani::cover!(has_nan(&vals));
        kani::cover!(!has_nan(&vals));
    }

    /// One harness per candidate count n; k is chosen symbolically among the listed concrete
    /// values (the sort inside TopK needs a concrete length, so k cannot be a free variable).
    macro_rules! topk_harness {
        ($name:ident, $n:expr, [$($k:expr),+]) => {
            #[kani::proof]
            #[kani::stub(Avx2Isa::new, no_avx2)]
            #[kani::stub(Avx512Isa::new, no_avx512)]
            #[kani::unwind(9)]
            pub fn $name() {
                let ks = [$($k as usize),+];
                let which: usize = kani::any();
                kani::assume(which < ks.len());
                let mut done = false;
                let mut idx = 0usize;
                $(
                    if !done && which == idx {
                        topk_contract::<$n>($k, false);
                        done = true;
                    }
                    idx += 1;
                )+
                let _ = idx;
                kani::cover!(done && which == 0);
                kani::cover!(done && which == ks.len() - 1);
            }
        };
    }

    topk_harness!(topk_n1, 1, [0, 1]);
    topk_harness!(topk_n2, 2, [0, 1, 2]);
    topk_harness!(topk_n3, 3, [0, 1, 2, 3]);
    topk_harness!(topk_n4, 4, [0, 1, 2, 3, 4]);
    topk_harness!(topk_n5_small_k, 5, [1, 2]);
    topk_harness!(topk_n5_large_k, 5, [0, 3, 4, 5]);
    // one full 4-lane SIMD chunk plus a tail element after the first k entries
    topk_harness!(topk_n6, 6, [1]);
    topk_harness!(topk_n7, 7, [2]);

    /// K greater than the number of candidates (design finding D10): the property demands all
    /// n candidates, sorted, and no panic. The (n, k) pair is chosen symbolically among
    /// concrete pairs (the sort needs a concrete length).
    #[kani::proof]
    #[kani::stub(Avx2Isa::new, no_avx2)]
    #[kani::stub(Avx512Isa::new, no_avx512)]
    #[kani::unwind(9)]
    pub fn topk_k_greater_than_n() {
        let which: u8 = kani::any();
        match which {
            0 => topk_contract::<1>(2, false),
            1 => topk_contract::<2>(3, false),
            2 => topk_contract::<2>(4, false),
            3 => topk_contract::<3>(5, false),
            _ => topk_contract::<3>(usize::MAX, false),
        }
    }

    /// "K largest" in the total order, all bit patterns incl. NaN and signed zeros.
    #[kani::proof]
    #[kani::stub(Avx2Isa::new, no_avx2)]
    #[kani::stub(Avx512Isa::new, no_avx512)]
    #[kani::unwind(9)]
    pub fn topk_k_largest_total_order() {
        let which: u8 = kani::any();
        match which {
            0 => topk_contract::<2>(1, true),
            1 => topk_contract::<3>(1, true),
            _ => topk_contract::<3>(2, true),
        }
    }

    /// The same clause where the candidates after the first K fill at least one full 4-lane SIMD
    /// chunk (the vectorised pre-filter of SimdTopK::eval only runs on full chunks), with and
    /// without a scalar tail.
    #[kani::proof]
    #[kani::stub(Avx2Isa::new, no_avx2)]
    #[kani::stub(Avx512Isa::new, no_avx512)]
    #[kani::unwind(9)]
    pub fn topk_k_largest_total_order_simd_chunk() {
        let which: u8 = kani::any();
        match which {
            0 => topk_contract::<5>(1, true),
            1 => topk_contract::<6>(1, true),
            _ => topk_contract::<6>(2, true),
        }
    }

    /// Empty input: any k, returns empty, no panic.
    #[kani::proof]
    #[kani::stub(Avx2Isa::new, no_avx2)]
    #[kani::stub(Avx512Isa::new, no_avx512)]
    #[kani::unwind(9)]
    pub fn topk_empty_input() {
        let k: usize = kani::any();
        let out = TopK::new(k).filter(Logits::sparse(Vec::new(), Vec::new()), &[]);
        assert!(out.is_empty() && out.indices().is_empty());
    }

    /// The same contract on `SimdTopK::eval` instantiated with the portable ISA directly
    /// (no stub involved): cross-check of the stubbed dispatch route.
    fn eval_contract<const N: usize>(k: usize) {
        let vals = any_logits::<N>();
        let mut ids = [0u32; N];
        let mut i = 0;
        while i < N {
            ids[i] = i as u32;
            i += 1;
        }
        let topk = SimdTopK { k, logits: &vals, indices: &ids }.eval(GenericIsa::new());
        let (oi, ol): (Vec<u32>, Vec<f32>) = topk.into_iter().unzip();
        let out = Logits::sparse(ol, oi);
        let want = if k < N { k } else { N };
        assert!(out.len() == want, "keeps exactly min(k, n) candidates");
        assert!(is_submultiset(&vals, &out), "kept candidates are distinct input candidates with their own scores");
        assert!(sorted_desc_total::<N>(&out), "output is sorted in descending total order");
        if !has_nan(&vals) {
            assert!(dropped_le_kept(&vals, &out, false), "without NaN: no dropped score exceeds a kept score");
        }
        kani::cover!(has_nan(&vals));
        kani::cover!(!has_nan(&vals));
    }

    #[kani::proof]
    #[kani::unwind(9)]
    pub fn simd_topk_eval_generic_n3_k2() {
        eval_contract::<3>(2)
    }

    #[kani::proof]
    #[kani::unwind(9)]
    pub fn simd_topk_eval_generic_n5_k1() {
        eval_contract::<5>(1)
    }

    // ---------------------------------------------------------------- TopP
    fn any_p() -> f32 {
        let p = any_f32();
        kani::assume(p >= 0.0 && p <= 1.0);
        p
    }

    /// Top-P (inputs taken as probabilities, `normalize(false)`): never empty for non-empty
    /// input, keeps distinct input candidates, and what it keeps is a highest-score prefix.
    /// Scores are arbitrary bit patterns, p is any f32 in [0, 1].
    fn topp_prefix<const N: usize>() {
        let vals = any_logits::<N>();
        let p = any_p();
        let out = TopP::new(p).normalize(false).filter(dense(&vals), &[]);
        assert!(!out.is_empty(), "never empty for non-empty input");
        assert!(is_submultiset(&vals, &out), "kept candidates are distinct input candidates with their own scores");
        assert!(dropped_le_kept(&vals, &out, true), "kept candidates are a highest-score prefix (total order)");
        kani::cover!(p == 0.0);
        kani::cover!(p == 1.0);
        kani::cover!(N == 1 || (p > 0.0 && p < 1.0 && out.len() < N));
        kani::cover!(has_nan(&vals));
    }

    /// Shortest prefix: with probabilities and p on the dyadic grid j/1024 every partial sum is
    /// exact in f32, so "the shortest prefix of the descending order whose sum reaches p" does
    /// not depend on summation order or precision. p in [1/1024, 1023/1024].
    fn topp_minimal<const N: usize>() {
        let mut vals = [0.0f32; N];
        let mut i = 0;
        while i < N {
            let g: u16 = kani::any();
            kani::assume(g <= 1024);
            vals[i] = g as f32 / 1024.0;
            i += 1;
        }
        let pg: u16 = kani::any();
        kani::assume(pg >= 1 && pg <= 1023);
        let p = pg as f32 / 1024.0;

        let out = TopP::new(p).normalize(false).filter(dense(&vals), &[]);

        // reference: sort a copy descending, take the first prefix whose sum reaches p
        let mut s = vals;
        let mut a = 0;
        while a < N {
            let mut b = a + 1;
            while b < N {
                if s[b] > s[a] {
                    let t = s[a];
                    s[a] = s[b];
                    s[b] = t;
                }
                b += 1;
            }
            a += 1;
        }
        let mut cum = 0.0f32;
        let mut want = N;
        let mut found = false;
        let mut j = 0;
        while j < N {
            cum += s[j];
            if !found && cum >= p {
                want = j + 1;
                found = true;
            }
            j += 1;
        }
        assert!(out.len() == want, "keeps the shortest prefix whose cumulative probability reaches p");
        assert!(dropped_le_kept(&vals, &out, false), "the prefix holds the highest probabilities");
        kani::cover!(found && want == N);
        kani::cover!(!found);
        kani::cover!(want == 1 && N > 1);
        kani::cover!(found && cum == p);
    }

    macro_rules! topp_harness {
        ($name:ident, $f:ident, $n:expr) => {
            #[kani::proof]
            #[kani::unwind(8)]
            pub fn $name() {
                $f::<$n>()
            }
        };
    }
    topp_harness!(topp_prefix_n1, topp_prefix, 1);
    topp_harness!(topp_prefix_n2, topp_prefix, 2);
    topp_harness!(topp_prefix_n3, topp_prefix, 3);
    topp_harness!(topp_prefix_n4, topp_prefix, 4);
    topp_harness!(topp_minimal_n2, topp_minimal, 2);
    topp_harness!(topp_minimal_n3, topp_minimal, 3);
    topp_harness!(topp_minimal_n4, topp_minimal, 4);

    #[kani::proof]
    #[kani::unwind(8)]
    pub fn topp_empty_input() {
        let p = any_p();
        let out = TopP::new(p).normalize(false).filter(Logits::sparse(Vec::new(), Vec::new()), &[]);
        assert!(out.is_empty() && out.indices().is_empty());
        kani::cover!(p == 1.0);
        kani::cover!(p < 1.0);
    }

    // ---------------------------------------------------------------- Chain
    /// A chain behaves as the composition of its members, in order. The two members do not
    /// commute (top-2 then "drop token 0" differs from the reverse order).
    #[kani::proof]
    #[kani::stub(Avx2Isa::new, no_avx2)]
    #[kani::stub(Avx512Isa::new, no_avx512)]
    #[kani::unwind(9)]
    pub fn chain_topk_then_token_filter() {
        let vals = any_logits::<3>();
        let chain = Chain::new().top_k(2).append(token_id_filter(|id| id != 0));
        let got = chain.filter(dense(&vals), &[]);
        let step1 = TopK::new(2).filter(dense(&vals), &[]);
        let want = token_id_filter(|id| id != 0).filter(step1, &[]);
        assert!(same_logits::<3>(&got, &want), "chain == second(first(input))");
        kani::cover!(got.len() == 1);
        kani::cover!(got.len() == 2);
    }

    /// Chain with a top-P member: "drop token 0" then top-P (does not commute either).
    #[kani::proof]
    #[kani::unwind(9)]
    pub fn chain_token_filter_then_topp() {
        let vals = any_logits::<3>();
        let p = any_p();
        let chain = Chain::new().append(token_id_filter(|id| id != 0)).top_p(p);
        let got = chain.filter(dense(&vals), &[]);
        let step1 = token_id_filter(|id| id != 0).filter(dense(&vals), &[]);
        let want = TopP::new(p).filter(step1, &[]);
        assert!(same_logits::<3>(&got, &want), "chain == second(first(input))");
        kani::cover!(got.len() == 1);
        kani::cover!(got.len() == 2);
    }

    #[kani::proof]
    #[kani::unwind(9)]
    pub fn chain_empty_is_identity() {
        let vals = any_logits::<3>();
        let got = Chain::new().filter(dense(&vals), &[]);
        assert!(same_logits::<3>(&got, &dense(&vals)), "an empty chain returns its input");
    }

    // ---------------------------------------------------------------- other filters: no panic
    /// `Sort` and `token_id_filter` never panic and keep/permute input candidates.
    /// (`Temperature` is left out: Kani's default NaN checks flag `inf * 0.0` in its scaling
    /// loop, which is not a panic and not something the property forbids.)
    #[kani::proof]
    #[kani::unwind(9)]
    pub fn sort_tokenid_no_panic() {
        let vals = any_logits::<3>();
        let b = Sort::new().filter(dense(&vals), &[]);
        assert!(b.len() == 3 && is_submultiset(&vals, &b) && sorted_desc_total::<3>(&b));
        let bound: u32 = kani::any();
        let c = token_id_filter(move |id| id < bound).filter(dense(&vals), &[]);
        assert!(is_submultiset(&vals, &c));
        kani::cover!(c.len() == 2);
    }

    #[kani::proof]
    pub fn canary() {
        let x: u8 = kani::any();
        assert!(x != 7);
    }
}
