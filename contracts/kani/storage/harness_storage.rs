#[cfg(kani)]
mod verif_storage {
    use super::*;

    const N: usize = 6;

    fn any_range() -> Range<usize> {
        let s: usize = kani::any();
        let e: usize = kani::any();
        s..e
    }

    /// Storage::slice / ViewData::slice with an in-bounds range (the functions' own asserted
    /// precondition, start/end full usize): the view has the expected length, every offset below
    /// it reads the corresponding element of the underlying buffer (Kani checks each raw-pointer
    /// dereference), offsets at or past the length give None.
    #[kani::proof]
    pub fn view_slice_reads_inside_buffer() {
        let buf: [u8; N] = kani::any();
        let n: usize = kani::any();
        kani::assume(n <= N);
        let data: ViewData<u8> = (&buf[..n]).into_storage();
        assert!(data.len() == n);
        let r = any_range();
        kani::assume(r.start <= n && r.end <= n);
        let v = data.slice(r.clone());
        let want_len = if r.end >= r.start { r.end - r.start } else { 0 };
        assert!(v.len() == want_len);
        let off: usize = kani::any();
        let got = unsafe { v.get(off) };
        if off < want_len {
            assert!(got == Some(&buf[r.start + off]), "slice element is the buffer element at start + off");
            kani::cover!(off > 0 && r.start > 0);
        } else {
            assert!(got.is_none());
        }
        // nested slice of the slice
        let r2 = any_range();
        kani::assume(r2.start <= v.len() && r2.end <= v.len());
        let v2 = v.slice(r2.clone());
        let off2: usize = kani::any();
        if let Some(x) = unsafe { v2.get(off2) } {
            assert!(*x == buf[r.start + r2.start + off2]);
        }
    }

    /// An out-of-bounds range must be rejected (documented panic) before any view is formed:
    /// the harness must panic (should_panic) and the point after the call must be unreachable
    /// for out-of-bounds ranges (unit.json: covers_must_be_unsat).
    #[kani::proof]
    #[kani::should_panic]
    pub fn view_slice_rejects_out_of_bounds_range() {
        let buf: [u8; N] = kani::any();
        let n: usize = kani::any();
        kani::assume(n <= N);
        let data: ViewData<u8> = (&buf[..n]).into_storage();
        let r = any_range();
        kani::assume(r.start > n || r.end > n);
        let _v = data.slice(r);
        kani::cover!(true, "ViewData::slice returned for an out-of-bounds range");
    }

    #[kani::proof]
    #[kani::should_panic]
    pub fn split_mut_rejects_out_of_bounds_range() {
        let mut buf: [u8; N] = kani::any();
        let n: usize = kani::any();
        kani::assume(n <= N);
        let data: ViewMutData<u8> = (&mut buf[..n]).into_storage();
        let (l, r) = (any_range(), any_range());
        kani::assume(l.start > n || l.end > n || r.start > n || r.end > n);
        let _halves = data.split_mut(l, r);
        kani::cover!(true, "split_mut returned for an out-of-bounds range");
    }

    /// Vec storage: slice and slice_mut agree with the Vec's elements; writes through slice_mut
    /// land on the right element and nowhere else.
    #[kani::proof]
    #[kani::unwind(8)]
    pub fn vec_slice_mut_writes_inside_buffer() {
        let init: [u8; N] = kani::any();
        let mut data: Vec<u8> = init.to_vec();
        let r = any_range();
        kani::assume(r.start <= N && r.end <= N && r.start < r.end);
        let off: usize = kani::any();
        kani::assume(off < r.end - r.start);
        {
            let mut v = data.slice_mut(r.clone());
            assert!(v.len() == r.end - r.start);
            let x = unsafe { v.get_mut(off) }.unwrap();
            *x = 0xAB;
        }
        let k: usize = kani::any();
        kani::assume(k < N);
        if k == r.start + off { assert!(data[k] == 0xAB); } else { assert!(data[k] == init[k], "write through slice_mut changed another element"); }
    }

    /// ViewMutData::split_mut with two in-bounds ranges: each half has the expected length and its
    /// elements are the buffer elements at start + off.
    #[kani::proof]
    pub fn split_mut_halves_inside_buffer() {
        let mut buf: [u8; N] = kani::any();
        let orig = buf;
        let n: usize = kani::any();
        kani::assume(n <= N);
        let data: ViewMutData<u8> = (&mut buf[..n]).into_storage();
        let (l, r) = (any_range(), any_range());
        kani::assume(l.start <= n && l.end <= n && r.start <= n && r.end <= n);
        let (mut lv, mut rv) = data.split_mut(l.clone(), r.clone());
        assert!(lv.len() == l.end.saturating_sub(l.start) && rv.len() == r.end.saturating_sub(r.start));
        let off: usize = kani::any();
        if let Some(x) = unsafe { lv.get_mut(off) } { assert!(*x == orig[l.start + off]); }
        if let Some(x) = unsafe { rv.get_mut(off) } { assert!(*x == orig[r.start + off]); }
    }

    #[kani::proof]
    pub fn canary() {
        let x: u8 = kani::any();
        assert!(x != 7);
    }
}
