#[cfg(kani)]
mod verif_contours {
    //! C36 (contour half): the REAL `find_contours` on every mask of a tiny fixed size
    //! (the mask is fully symbolic, so one harness = exhaustive over all 2^(R*C) masks).
    //!
    //! Checked, per the property statement:
    //!  (a) every traced contour point lies in the image, is a foreground pixel, and is adjacent
    //!      (8-neighbourhood) to a background pixel or to the image edge;
    //!  (b) every foreground connected component (8-connectivity) has an outer contour: in
    //!      External mode every component contains a point of some contour, and every contour
    //!      stays inside one component.
    //! Panics / out-of-bounds / overflow inside the real code are Kani's default checks.
    use super::*;
    use rten_tensor::NdTensor;
    use rten_tensor::prelude::*;

    fn fg<const R: usize, const C: usize>(cells: &[[bool; C]; R], y: i32, x: i32) -> bool {
        y >= 0 && x >= 0 && (y as usize) < R && (x as usize) < C && cells[y as usize][x as usize]
    }

    /// Component labels by label propagation: label[y][x] = smallest raster index reachable.
    fn labels<const R: usize, const C: usize>(cells: &[[bool; C]; R]) -> [[u8; C]; R] {
        let mut lab = [[255u8; C]; R];
        for y in 0..R {
            for x in 0..C {
                if cells[y][x] {
                    lab[y][x] = (y * C + x) as u8;
                }
            }
        }
        // R*C rounds suffice for the minimum to reach every pixel of a component
        for _round in 0..R * C {
            for y in 0..R {
                for x in 0..C {
                    if !cells[y][x] {
                        continue;
                    }
                    for dy in -1i32..=1 {
                        for dx in -1i32..=1 {
                            let (ny, nx) = (y as i32 + dy, x as i32 + dx);
                            if fg(cells, ny, nx) {
                                let l = lab[ny as usize][nx as usize];
                                if l < lab[y][x] {
                                    lab[y][x] = l;
                                }
                            }
                        }
                    }
                }
            }
        }
        lab
    }

    fn check<const R: usize, const C: usize>(mode: RetrievalMode) {
        let cells: [[bool; C]; R] = kani::any();
        let mut mask = NdTensor::<bool, 2>::zeros([R, C]);
        for y in 0..R {
            for x in 0..C {
                mask[[y, x]] = cells[y][x];
            }
        }
        let outer_only = matches!(mode, RetrievalMode::External);
        let polys = find_contours(mask.view(), mode);
        let lab = labels(&cells);
        // which components own a contour point
        let mut has_contour = [false; 64];
        let mut n_points = 0usize;
        for poly in polys.iter() {
            let mut poly_label: Option<u8> = None;
            for p in poly {
                // (a)
                assert!(p.y >= 0 && p.x >= 0 && (p.y as usize) < R && (p.x as usize) < C,
                        "contour point outside the image");
                assert!(cells[p.y as usize][p.x as usize], "contour point is not a foreground pixel");
                let mut on_border = false;
                for dy in -1i32..=1 {
                    for dx in -1i32..=1 {
                        if (dy != 0 || dx != 0) && !fg(&cells, p.y + dy, p.x + dx) {
                            on_border = true;
                        }
                    }
                }
                assert!(on_border, "contour point is interior (no background / edge neighbour)");
                // (b) a contour stays inside one component
                let l = lab[p.y as usize][p.x as usize];
                match poly_label {
                    None => poly_label = Some(l),
                    Some(pl) => assert!(pl == l, "one contour visits two components"),
                }
                has_contour[l as usize] = true;
                n_points += 1;
            }
        }
        // (b) every component has a contour (its label is the raster index of one of its pixels)
        for y in 0..R {
            for x in 0..C {
                if cells[y][x] {
                    assert!(has_contour[lab[y][x] as usize], "a foreground component has no contour");
                }
            }
        }
        if outer_only {
            kani::cover!(polys.len() == 2, "two components reachable");
        }
        kani::cover!(n_points >= 3, "a multi-point contour reachable");
    }

    #[kani::proof]
    #[kani::unwind(22)]
    pub fn contours_1x4_external() { check::<1, 4>(RetrievalMode::External); }

    #[kani::proof]
    #[kani::unwind(22)]
    pub fn contours_1x4_list() { check::<1, 4>(RetrievalMode::List); }

    #[kani::proof]
    #[kani::unwind(22)]
    pub fn contours_2x3_external() { check::<2, 3>(RetrievalMode::External); }

    #[kani::proof]
    #[kani::unwind(22)]
    pub fn contours_2x3_list() { check::<2, 3>(RetrievalMode::List); }

    #[kani::proof]
    #[kani::unwind(27)]
    pub fn contours_3x3_external() { check::<3, 3>(RetrievalMode::External); }

    #[kani::proof]
    pub fn canary() {
        let x: u8 = kani::any();
        assert!(x != 7);
    }
}
