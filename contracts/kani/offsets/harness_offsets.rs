#[cfg(kani)]
mod verif_offsets {
    use super::*;
    use rten_base::iter::SplitIterator;

    /// Ghost view of an OffsetsBase: merged dims (size, stride), outermost first; the linear
    /// index of the next front element; remaining length.
    #[derive(Clone, Copy)]
    struct Ghost<const D: usize> {
        dims: [(usize, usize); D],
        front: usize,
        len: usize,
    }

    fn total<const D: usize>(dims: &[(usize, usize); D]) -> usize {
        let mut t = 1;
        for d in 0..D { t *= dims[d].0; }
        t
    }

    /// digit of linear index `i` in dimension `d` (row-major)
    fn digit<const D: usize>(dims: &[(usize, usize); D], i: usize, d: usize) -> usize {
        let mut inner = 1;
        for k in (d + 1)..D { inner *= dims[k].0; }
        (i / inner) % dims[d].0
    }

    /// reference offset of the element with linear index i
    fn ref_offset<const D: usize>(dims: &[(usize, usize); D], i: usize) -> usize {
        let mut o = 0;
        for d in 0..D { o += digit(dims, i, d) * dims[d].1; }
        o
    }

    fn any_ghost<const D: usize>() -> Ghost<D> {
        let mut dims = [(1usize, 0usize); D];
        for d in 0..D {
            let s: u8 = kani::any();
            kani::assume(s >= 1 && s <= 3);
            let st: u8 = kani::any();
            dims[d] = (s as usize, st as usize);
        }
        let t = total(&dims);
        let front: u8 = kani::any();
        let len: u8 = kani::any();
        kani::assume((front as usize) < t && (front as usize) + (len as usize) <= t);
        Ghost { dims, front: front as usize, len: len as usize }
    }

    fn pos_for(size: usize, stride: usize, index: usize) -> IterPos {
        IterPos { remaining: size - 1 - index, offset: index * stride, stride, max_remaining: size - 1 }
    }

    /// Build the (unique) well-formed OffsetsBase for a ghost state. D = n_outer + 2.
    fn build<const D: usize>(g: &Ghost<D>) -> OffsetsBase {
        let n_outer = D - INNER_NDIM;
        let mut outer_pos = Vec::with_capacity(n_outer);
        let mut outer_offset = 0;
        for d in 0..n_outer {
            let p = pos_for(g.dims[d].0, g.dims[d].1, digit(&g.dims, g.front, d));
            outer_offset += p.offset;
            outer_pos.push(p);
        }
        let p0 = pos_for(g.dims[n_outer].0, g.dims[n_outer].1, digit(&g.dims, g.front, n_outer));
        let p1 = pos_for(g.dims[n_outer + 1].0, g.dims[n_outer + 1].1, digit(&g.dims, g.front, n_outer + 1));
        OffsetsBase { len: g.len, inner_offset: p0.offset + p1.offset, inner_pos: [p0, p1], outer_offset, outer_pos }
    }

    /// The concrete state represents exactly the ghost state (representation invariant).
    fn represents<const D: usize>(ob: &OffsetsBase, g: &Ghost<D>) -> bool {
        if ob.len != g.len { return false; }
        if g.len == 0 { return true; }          // positions are only meaningful while len > 0
        let n_outer = D - INNER_NDIM;
        if ob.outer_pos.len() != n_outer { return false; }
        let mut ok = true;
        let mut inner = 0;
        let mut outer = 0;
        for d in 0..D {
            let p = ob.pos(d);
            let dg = digit(&g.dims, g.front, d);
            ok = ok && p.max_remaining == g.dims[d].0 - 1 && p.stride == g.dims[d].1
                && p.remaining == g.dims[d].0 - 1 - dg && p.offset == dg * g.dims[d].1;
            if d < n_outer { outer += p.offset; } else { inner += p.offset; }
        }
        ok && ob.inner_offset == inner && ob.outer_offset == outer
    }

    macro_rules! step_harnesses {
        ($next:ident, $next_back:ident, $step_by:ident, $split_at:ident, $d:expr) => {
            /// next(): yields the offset of the front element, then represents (front+1, len-1).
            #[kani::proof]
            #[kani::unwind(6)]
            pub fn $next() {
                let g: Ghost<$d> = any_ghost();
                let mut ob = build(&g);
                assert!(represents(&ob, &g));
                let r = ob.next();
                if g.len == 0 {
                    assert!(r.is_none() && ob.len == 0);
                } else {
                    assert!(r == Some(ref_offset(&g.dims, g.front)), "next() yields the front element");
                    let g2 = Ghost { dims: g.dims, front: g.front + 1, len: g.len - 1 };
                    assert!(represents(&ob, &g2), "state after next()");
                    assert!(ob.size_hint() == (g.len - 1, Some(g.len - 1)));
                    kani::cover!(g.front > 0 && g.len > 1);
                }
            }

            /// next_back(): yields the offset of the LAST remaining element (front+len-1) and
            /// leaves the front position unchanged.
            #[kani::proof]
            #[kani::unwind(6)]
            pub fn $next_back() {
                let g: Ghost<$d> = any_ghost();
                let mut ob = build(&g);
                let r = ob.next_back();
                if g.len == 0 {
                    assert!(r.is_none() && ob.len == 0);
                } else {
                    assert!(r == Some(ref_offset(&g.dims, g.front + g.len - 1)), "next_back() yields the last remaining element");
                    let g2 = Ghost { dims: g.dims, front: g.front, len: g.len - 1 };
                    assert!(represents(&ob, &g2), "state after next_back()");
                    kani::cover!(g.front > 0 && g.len > 1);
                }
            }

            /// step_by(n): skips min(n, len) elements from the front.
            #[kani::proof]
            #[kani::unwind(6)]
            pub fn $step_by() {
                let g: Ghost<$d> = any_ghost();
                let mut ob = build(&g);
                let n: usize = kani::any();
                OffsetsBase::step_by(&mut ob, n);
                let k = if n < g.len { n } else { g.len };
                let g2 = Ghost { dims: g.dims, front: g.front + k, len: g.len - k };
                assert!(represents(&ob, &g2), "state after step_by()");
                kani::cover!(k > 1 && g2.len > 0);
            }

            /// split_at(i): left visits [front, front+i), right visits [front+i, front+len).
            #[kani::proof]
            #[kani::unwind(6)]
            pub fn $split_at() {
                let g: Ghost<$d> = any_ghost();
                let ob = build(&g);
                let i: usize = kani::any();
                kani::assume(i <= g.len);
                let (left, right) = ob.split_at(i);
                assert!(represents(&left, &Ghost { dims: g.dims, front: g.front, len: i }));
                assert!(represents(&right, &Ghost { dims: g.dims, front: g.front + i, len: g.len - i }));
                kani::cover!(i > 0 && i < g.len);
            }
        };
    }
    step_harnesses!(next_step_d2, next_back_step_d2, step_by_d2, split_at_d2, 2);
    step_harnesses!(next_step_d3, next_back_step_d3, step_by_d3, split_at_d3, 3);
    step_harnesses!(next_step_d4, next_back_step_d4, step_by_d4, split_at_d4, 4);

    /// The contract that the Verus unit U-offsets-v ASSUMES for `step_outer_pos` (it uses iterator
    /// adaptors outside Verus' subset): from arbitrary well-formed outer positions it advances the
    /// outer mixed-radix counter by one (returning true) or wraps it to zero at its last value
    /// (returning false), keeps every position well-formed and `outer_offset` equal to the sum of
    /// the outer offsets, and touches nothing else.
    macro_rules! step_outer_contract {
        ($name:ident, $d:expr) => {
            #[kani::proof]
            #[kani::unwind(6)]
            pub fn $name() {
                let g: Ghost<$d> = any_ghost();
                let mut ob = build(&g);
                let n_outer = $d - INNER_NDIM;
                let before = ob.clone();
                let r = ob.step_outer_pos();
                // outer digits as a mixed-radix number
                let mut lin0 = 0usize; let mut lin1 = 0usize; let mut tot = 1usize; let mut sum = 0usize;
                for d in 0..n_outer {
                    let (p0, p1) = (before.outer_pos[d], ob.outer_pos[d]);
                    assert!(p1.max_remaining == p0.max_remaining && p1.stride == p0.stride, "dims unchanged");
                    assert!(p1.remaining <= p1.max_remaining && p1.offset == p1.index() * p1.stride, "position well-formed");
                    lin0 = lin0 * p0.size() + p0.index();
                    lin1 = lin1 * p1.size() + p1.index();
                    tot *= p0.size();
                    sum += p1.offset;
                }
                assert!(ob.outer_offset == sum, "outer_offset in sync");
                if r { assert!(lin1 == lin0 + 1); } else { assert!(lin1 == 0 && lin0 + 1 == tot); }
                assert!(ob.len == before.len && ob.inner_offset == before.inner_offset);
                for k in 0..INNER_NDIM {
                    assert!(ob.inner_pos[k].remaining == before.inner_pos[k].remaining && ob.inner_pos[k].offset == before.inner_pos[k].offset);
                }
                kani::cover!(r);
                kani::cover!(!r);
            }
        };
    }
    step_outer_contract!(step_outer_pos_contract_d3, 3);
    step_outer_contract!(step_outer_pos_contract_d4, 4);

    /// fold visits exactly the remaining elements in order (rank-3 state, <= 8 elements).
    #[kani::proof]
    #[kani::unwind(4)]
    pub fn fold_visits_remaining_in_order_d3() {
        let mut dims = [(1usize, 0usize); 3];
        for d in 0..3 {
            let s: u8 = kani::any();
            kani::assume(s >= 1 && s <= 2);
            let st: u8 = kani::any();
            dims[d] = (s as usize, st as usize);
        }
        let t = total(&dims);
        let front: u8 = kani::any();
        let len: u8 = kani::any();
        kani::assume((front as usize) < t && (front as usize) + (len as usize) <= t);
        let g = Ghost { dims, front: front as usize, len: len as usize };
        let ob = build(&g);
        let (count, ok) = ob.fold((0usize, true), |(k, ok), off| (k + 1, ok && k < g.len && off == ref_offset(&g.dims, g.front + k)));
        assert!(ok, "fold yields the k-th remaining element at step k");
        assert!(count == g.len, "fold yields exactly len elements");
        kani::cover!(g.len > 2 && g.front > 0);
    }

    // ------------------------------------------------------------ construction from a layout

    fn any_small_layout<const N: usize>() -> NdLayout<N> {
        let mut shape = [0usize; N];
        let mut strides = [0usize; N];
        for i in 0..N {
            let s: u8 = kani::any();
            kani::assume(s <= 3);
            shape[i] = s as usize;
            let st: u8 = kani::any();
            strides[i] = st as usize;
        }
        NdLayout::from_shape_and_strides(shape, strides, OverlapPolicy::AllowOverlap).unwrap()
    }

    fn unravel<const N: usize>(shape: [usize; N], i: usize) -> [usize; N] {
        let mut idx = [0usize; N];
        let mut rem = i;
        for d in (0..N).rev() {
            idx[d] = rem % shape[d];
            rem /= shape[d];
        }
        idx
    }

    macro_rules! new_harness {
        ($name:ident, $n:expr) => {
            /// OffsetsBase::new(layout) (which merges axes): starts at the first element, has
            /// len = number of elements, and its i-th element (by the iterator's own
            /// linear-index mapping over the merged dims) is the layout's i-th element in
            /// row-major order -- i.e. merge_axes preserves the visiting order.
            #[kani::proof]
            #[kani::unwind(8)]
            pub fn $name() {
                let l: NdLayout<$n> = any_small_layout();
                let ob = OffsetsBase::new(&l);
                assert!(ob.len == l.len());
                if l.len() > 0 {
                    let i: u8 = kani::any();
                    let i = i as usize;
                    kani::assume(i < l.len());
                    let want = l.offset(unravel(l.shape(), i)).unwrap();
                    assert!(ob.offset_from_linear_index(i) == want, "merged dims preserve row-major order");
                    // initial position is index 0 in every dim
                    assert!(ob.inner_offset == 0 && ob.outer_offset == 0);
                    for d in 0..ob.ndim() { assert!(ob.pos(d).index() == 0 && ob.pos(d).offset == 0); }
                    let mut t = 1;
                    for d in 0..ob.ndim() { t *= ob.pos(d).size(); }
                    assert!(t == l.len());
                    kani::cover!(ob.ndim() < $n.max(2));
                    kani::cover!(i > 2);
                }
            }
        };
    }
    new_harness!(offsets_new_matches_layout_2, 2);
    new_harness!(offsets_new_matches_layout_3, 3);

    /// Offsets fast path: for a contiguous layout the range 0..min_data_len enumerates the
    /// elements in row-major order (i-th offset == i == layout offset of unravel(i)).
    #[kani::proof]
    #[kani::unwind(8)]
    pub fn offsets_range_fast_path_3() {
        let l: NdLayout<3> = any_small_layout();
        let offs = Offsets::new(&l);
        if let OffsetsKind::Range(r) = &offs.base {
            assert!(r.start == 0 && r.end == l.len(), "range length equals element count");
            if l.len() > 0 {
                let i: u8 = kani::any();
                let i = i as usize;
                kani::assume(i < l.len());
                assert!(l.offset(unravel(l.shape(), i)) == Some(i));
                kani::cover!(i > 1);
            }
        } else {
            assert!(!l.is_contiguous());
        }
    }

    /// Lane ranges stay inside the data: for every lane start produced from the other dims,
    /// start..start+(size-1)*stride+1 ends at or before min_data_len.
    #[kani::proof]
    #[kani::unwind(8)]
    pub fn lane_ranges_within_data_3() {
        let l: NdLayout<3> = any_small_layout();
        let dim: usize = kani::any();
        kani::assume(dim < 3);
        let mut lanes = LaneRanges::new(&l, dim);
        let n_lanes = lanes.len();
        if l.len() == 0 {
            assert!(n_lanes == 0);
        } else {
            assert!(n_lanes * l.size(dim) == l.len());
            let r = if kani::any() { lanes.next() } else { lanes.next_back() };
            let r = r.unwrap();
            assert!(r.start < r.end && r.end <= l.min_data_len());
            assert!(r.end - r.start == (l.size(dim) - 1) * l.stride(dim) + 1);
        }
    }

    #[kani::proof]
    pub fn canary() {
        let x: u8 = kani::any();
        assert!(x != 7);
    }
}
