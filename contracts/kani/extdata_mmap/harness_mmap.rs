#[cfg(kani)]
mod verif_extdata_mmap {
    use super::*;

    const LEN: usize = 8;

    /// Fixed keys instead of OS entropy (HashMap::new() is only constructed, never queried).
    pub fn random_state_stub() -> std::hash::RandomState {
        // SAFETY of the model: RandomState is two u64 keys
        unsafe { core::mem::transmute::<(u64, u64), std::hash::RandomState>((1, 2)) }
    }

    /// Stand-in for `get_or_open_mmap` (path check + file open + mmap + HashMap cache, none of
    /// which CBMC can execute): yields a mapped file of LEN bytes. The obligation below is about
    /// what `load` does with the file's length, the offset and the length from the model.
    pub fn get_or_open_mmap_stub<'a>(
        _this: &MmapLoader,
        _mmaps: &'a mut HashMap<PathBuf, (PathBuf, Arc<ConstantStorage>)>,
        _data_path: &Path,
    ) -> Result<&'a (PathBuf, Arc<ConstantStorage>), ExternalDataError> {
        let entry = Box::new((PathBuf::new(), Arc::new(ConstantStorage::Buffer(vec![0u8; LEN]))));
        Ok(Box::leak(entry))
    }

    /// MmapLoader::load: for ANY offset and length (full u64), `Ok(slice)` implies the byte range is
    /// exactly offset..offset+length over the integers and lies inside the mapped file; and never
    /// panics. (Out-of-range offset/length must be a load error.)
    #[kani::proof]
    #[kani::unwind(10)]
    #[kani::stub(std::hash::RandomState::new, random_state_stub)]
    #[kani::stub(MmapLoader::get_or_open_mmap, get_or_open_mmap_stub)]
    pub fn mmap_loader_range_within_file() {
        let loader = MmapLoader { dir_path: PathBuf::new(), mmaps: RefCell::new(HashMap::new()) };
        let (offset, length): (u64, u64) = (kani::any(), kani::any());
        let location = DataLocation { path: String::new(), offset, length };
        let r = loader.load(&location);
        if let Ok(slice) = &r {
            assert!(slice.bytes.start as u128 == offset as u128, "range starts at the requested offset");
            assert!(slice.bytes.end as u128 == offset as u128 + length as u128, "range ends at offset + length (no wrap)");
            assert!(slice.bytes.end <= LEN, "range lies inside the file");
            kani::cover!(length > 0 && offset > 0);
        } else {
            assert!(offset as u128 + length as u128 > LEN as u128, "in-range request rejected");
        }
        core::mem::forget(r);
    }

    #[kani::proof]
    pub fn canary() {
        let x: u8 = kani::any();
        assert!(x != 7);
    }
}
