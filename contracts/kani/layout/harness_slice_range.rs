#[cfg(kani)]
mod verif_slice_range {
    use super::*;

    /// SliceRange::new documents a panic for step == 0 (the Verus unit U-slice-arith takes
    /// `step != 0` as a precondition of every method: this obligation checks that the constructor
    /// really enforces it). should_panic + unsatisfiable cover after the call.
    #[kani::proof]
    #[kani::should_panic]
    pub fn slice_range_new_rejects_zero_step() {
        let (start, end): (isize, Option<isize>) = (kani::any(), kani::any());
        let _r = SliceRange::new(start, end, 0);
        kani::cover!(true, "SliceRange::new returned a range with step 0");
    }

    /// IndexRange::new documents the same for step == 0 and for start > isize::MAX.
    #[kani::proof]
    #[kani::should_panic]
    pub fn index_range_new_rejects_zero_step_or_huge_start() {
        let (start, end, step): (usize, isize, isize) = (kani::any(), kani::any(), kani::any());
        kani::assume(step == 0 || start > isize::MAX as usize);
        let _r = IndexRange::new(start, end, step);
        kani::cover!(true, "IndexRange::new returned for step 0 / start > isize::MAX");
    }
}
