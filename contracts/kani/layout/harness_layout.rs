#[cfg(kani)]
mod verif_layout {
    use super::*;
    use crate::slice_range::SliceRange;

    // ---------------------------------------------------------------- generators / reference model

    /// Arbitrary layout over the FULL usize domain (for wrap-around obligations).
    fn any_layout_full<const N: usize>() -> NdLayout<N> {
        NdLayout { shape: kani::any(), strides: kani::any() }
    }

    /// Arbitrary layout with small sizes (<= 5) and 16-bit strides: the arithmetic of the
    /// transformers cannot wrap in this domain, so the checks below are about *logic*.
    fn any_layout_small<const N: usize>() -> NdLayout<N> {
        let mut shape = [0usize; N];
        let mut strides = [0usize; N];
        for i in 0..N {
            let s: u8 = kani::any();
            kani::assume(s <= 5);
            shape[i] = s as usize;
            let st: u16 = kani::any();
            strides[i] = st as usize;
        }
        NdLayout { shape, strides }
    }

    /// Largest offset over the integers, as Ok(Some(m)) if it fits in usize, Ok(None) if the
    /// layout has no elements, Err(()) if it does not fit (computed with checked usize
    /// arithmetic: equal to the integer value exactly when no step overflows).
    fn z_max_offset<const N: usize>(l: &NdLayout<N>) -> Result<Option<usize>, ()> {
        let mut m: Option<usize> = Some(0);
        let mut empty = false;
        for i in 0..N {
            if l.shape[i] == 0 {
                empty = true;
            } else {
                m = match m {
                    Some(acc) => match (l.shape[i] - 1).checked_mul(l.strides[i]) {
                        Some(t) => acc.checked_add(t),
                        None => None,
                    },
                    None => None,
                };
            }
        }
        if empty { Ok(None) } else { match m { Some(m) => Ok(Some(m)), None => Err(()) } }
    }

    fn any_index_in<const N: usize>(shape: [usize; N]) -> [usize; N] {
        let mut idx = [0usize; N];
        for i in 0..N {
            let v: u8 = kani::any();
            idx[i] = v as usize;
            kani::assume(idx[i] < shape[i]);
        }
        idx
    }

    fn z_offset<const N: usize>(l: &NdLayout<N>, idx: [usize; N]) -> u128 {
        let mut o: u128 = 0;
        for i in 0..N {
            o = o.saturating_add((idx[i] as u128) * (l.strides[i] as u128));
        }
        o
    }

    // ---------------------------------------------------------------- min_data_len / offset

    macro_rules! min_data_len_and_offset {
        ($name_len:ident, $name_off:ident, $n:expr) => {
            /// min_data_len equals (max offset over Z) + 1 whenever that value fits in usize.
            #[kani::proof]
            #[kani::unwind(5)]
            #[kani::solver(z3)]
            pub fn $name_len() {
                let l: NdLayout<$n> = any_layout_full();
                match z_max_offset(&l) {
                    Ok(None) => assert!(l.min_data_len() == 0),
                    Ok(Some(m)) => {
                        kani::assume(m < usize::MAX);
                        kani::cover!(m > 1 << 40);
                        assert!(l.min_data_len() == m + 1);
                    }
                    // not representable: nothing is demanded here; the constructors must reject such
                    // layouts (U-tensor-ctor obligations)
                    Err(()) => {}
                }
            }

            /// (NOT registered in unit.json: superseded by the unbounded Verus proof U-ndlayout-v; CBMC
            /// and z3 both need > 10 min for the 64x64->128-bit products even at rank 1.)
            /// offset(idx) is Some(sum idx*stride) exactly for in-bounds indices and the
            /// TrustedLayout promise holds: every returned offset is < min_data_len.
            #[kani::proof]
            #[kani::unwind(5)]
            #[kani::solver(z3)]
            pub fn $name_off() {
                let l: NdLayout<$n> = any_layout_full();
                let m = z_max_offset(&l);
                kani::assume(match m { Ok(None) => true, Ok(Some(m)) => m < usize::MAX, Err(()) => false });
                let idx: [usize; $n] = kani::any();
                let mut inb = true;
                for i in 0..$n {
                    inb = inb && idx[i] < l.shape[i];
                }
                match l.offset(idx) {
                    Some(o) => {
                        assert!(inb, "offset() returned Some for an out-of-bounds index");
                        assert!(o as u128 == z_offset(&l, idx));
                        assert!(o < l.min_data_len(), "TrustedLayout promise");
                        kani::cover!(o > 0);
                    }
                    None => assert!(!inb, "offset() returned None for a valid index"),
                }
                if inb {
                    assert!(l.offset_unchecked(idx) as u128 == z_offset(&l, idx));
                }
            }
        };
    }
    min_data_len_and_offset!(min_data_len_exact_1, offset_exact_1, 1);
    min_data_len_and_offset!(min_data_len_exact_2, offset_exact_2, 2);
    min_data_len_and_offset!(min_data_len_exact_3, offset_exact_3, 3);

    /// DynLayout::offset agrees with NdLayout::offset (rank 2; rank mismatch => None).
    #[kani::proof]
    #[kani::unwind(6)]
    pub fn dyn_offset_exact_2() {
        let l: NdLayout<2> = any_layout_small();
        let d = l.as_dyn();
        // indices up to 255: includes out-of-bounds ones (sizes are <= 5); products cannot wrap
        let (i0, i1): (u8, u8) = (kani::any(), kani::any());
        let idx: [usize; 2] = [i0 as usize, i1 as usize];
        assert!(d.offset(&idx) == l.offset(idx));
        assert!(d.offset(&idx[..1]).is_none());
        assert!(d.min_data_len() == l.min_data_len());
        assert!(d.len() == l.len());
    }

    // ---------------------------------------------------------------- permute / transpose / move_axis

    macro_rules! permuted_ok {
        ($name:ident, $n:expr) => {
            #[kani::proof]
            #[kani::unwind(6)]
            pub fn $name() {
                let l: NdLayout<$n> = any_layout_small();
                let mut dims = [0usize; $n];
                for i in 0..$n {
                    let d: u8 = kani::any();
                    dims[i] = d as usize;
                    kani::assume(dims[i] < $n);
                }
                // reference permutation test
                let mut is_perm = true;
                for d in 0..$n {
                    let mut c = 0;
                    for i in 0..$n {
                        if dims[i] == d { c += 1; }
                    }
                    is_perm = is_perm && c == 1;
                }
                assert!(is_valid_permutation($n, &dims) == is_perm);
                kani::assume(is_perm);
                let p = l.permuted(dims);
                // reference model: out[j0..] == in[i] where i[dims[k]] = j[k]
                let j = any_index_in(p.shape());
                let mut i_idx = [0usize; $n];
                for k in 0..$n {
                    assert!(p.size(k) == l.size(dims[k]));
                    i_idx[dims[k]] = j[k];
                }
                assert!(p.offset(j) == l.offset(i_idx));
                assert!(p.offset(j).is_some());
                assert!(p.len() == l.len());
                // transposed == permuted(reverse)
                let t = l.transposed();
                for k in 0..$n {
                    assert!(t.size(k) == l.size($n - 1 - k) && t.stride(k) == l.stride($n - 1 - k));
                }
            }
        };
    }
    permuted_ok!(permuted_matches_model_2, 2);
    permuted_ok!(permuted_matches_model_3, 3);

    /// move_axis(from, to) for one CONCRETE pair (SmallVec::remove/insert with symbolic positions
    /// make CBMC copy symbolic-length ranges: the fully symbolic version did not complete).
    fn move_axis_case(from: usize, to: usize) {
        let l: NdLayout<3> = any_layout_small();
        let mut m = l;
        m.move_axis(from, to);
        // reference: remove `from`, insert at `to`
        let mut order = [0usize; 3];
        let mut k = 0;
        for d in 0..3 {
            if d != from {
                let pos = if k >= to { k + 1 } else { k };
                order[pos] = d;
                k += 1;
            }
        }
        order[to] = from;
        for pos in 0..3 {
            assert!(m.size(pos) == l.size(order[pos]) && m.stride(pos) == l.stride(order[pos]));
        }
        // the dynamic-rank layout agrees
        let mut dl = l.as_dyn();
        dl.move_axis(from, to);
        for pos in 0..3 {
            assert!(dl.size(pos) == l.size(order[pos]) && dl.stride(pos) == l.stride(order[pos]));
        }
    }

    #[kani::proof]
    #[kani::unwind(8)]
    pub fn move_axis_matches_model_3_0to2() { move_axis_case(0, 2); }
    #[kani::proof]
    #[kani::unwind(8)]
    pub fn move_axis_matches_model_3_2to0() { move_axis_case(2, 0); }
    #[kani::proof]
    #[kani::unwind(8)]
    pub fn move_axis_matches_model_3_0to1() { move_axis_case(0, 1); }
    #[kani::proof]
    #[kani::unwind(8)]
    pub fn move_axis_matches_model_3_1to0() { move_axis_case(1, 0); }
    #[kani::proof]
    #[kani::unwind(8)]
    pub fn move_axis_matches_model_3_1to2() { move_axis_case(1, 2); }
    #[kani::proof]
    #[kani::unwind(8)]
    pub fn move_axis_matches_model_3_2to1() { move_axis_case(2, 1); }
    #[kani::proof]
    #[kani::unwind(8)]
    pub fn move_axis_matches_model_3_1to1() { move_axis_case(1, 1); }

    // ---------------------------------------------------------------- split / index_axis / slice_axis

    macro_rules! split_ok {
        ($name:ident, $n:expr) => {
            #[kani::proof]
            #[kani::unwind(6)]
            pub fn $name() {
                let l: NdLayout<$n> = any_layout_small();
                let axis: usize = kani::any();
                kani::assume(axis < $n);
                let mid: usize = kani::any();
                kani::assume(mid <= l.size(axis));
                let ((lr, left), (rr, right)) = l.split(axis, mid);
                assert!(lr.start <= lr.end && lr.end <= l.min_data_len());
                assert!(rr.start <= rr.end && rr.end <= l.min_data_len());
                for d in 0..$n {
                    assert!(left.size(d) == if d == axis { mid } else { l.size(d) });
                    assert!(right.size(d) == if d == axis { l.size(axis) - mid } else { l.size(d) });
                }
                assert!(left.len() + right.len() == l.len());
                // left element i is self element i; its offset lies inside the left range
                if left.len() > 0 {
                    let i = any_index_in(left.shape());
                    let o = left.offset(i).unwrap();
                    assert!(Some(lr.start + o) == l.offset(i));
                    assert!(lr.start + o < lr.end);
                    assert!(lr.start + left.min_data_len() <= lr.end);
                }
                // right element i is self element i + mid along axis
                if right.len() > 0 {
                    let i = any_index_in(right.shape());
                    let o = right.offset(i).unwrap();
                    let mut si = i;
                    si[axis] += mid;
                    assert!(Some(rr.start + o) == l.offset(si));
                    assert!(rr.start + o < rr.end);
                    assert!(rr.start + right.min_data_len() <= rr.end);
                    kani::cover!(mid > 0);
                }
            }
        };
    }
    split_ok!(split_matches_model_1, 1);
    split_ok!(split_matches_model_2, 2);
    split_ok!(split_matches_model_3, 3);

    #[kani::proof]
    #[kani::unwind(6)]
    pub fn index_axis_matches_model_3() {
        let l: NdLayout<3> = any_layout_small();
        let axis: usize = kani::any();
        kani::assume(axis < 3);
        let index: usize = kani::any();
        kani::assume(index < l.size(axis));
        let (r, out) = l.index_axis(axis, index);
        assert!(r.start <= r.end && r.end <= l.min_data_len());
        if out.len() > 0 {
            let j = any_index_in(out.shape());
            let mut i = [0usize; 3];
            let mut k = 0;
            for d in 0..3 {
                if d == axis { i[d] = index; } else { i[d] = j[k]; k += 1; }
            }
            let o = out.offset(j).unwrap();
            assert!(Some(r.start + o) == l.offset(i));
            assert!(r.start + o < r.end);
        }
        let mut k = 0;
        for d in 0..3 {
            if d != axis { assert!(out.size(k) == l.size(d)); k += 1; }
        }
    }

    #[kani::proof]
    #[kani::unwind(6)]
    pub fn index_axis_matches_model_2() {
        let l: NdLayout<2> = any_layout_small();
        let axis: usize = kani::any();
        kani::assume(axis < 2);
        let index: usize = kani::any();
        kani::assume(index < l.size(axis));
        let (r, out) = l.index_axis(axis, index);
        assert!(r.start <= r.end && r.end <= l.min_data_len());
        assert!(out.size(0) == l.size(1 - axis));
        if out.len() > 0 {
            let j = any_index_in(out.shape());
            let i = if axis == 0 { [index, j[0]] } else { [j[0], index] };
            let o = out.offset(j).unwrap();
            assert!(Some(r.start + o) == l.offset(i));
            assert!(r.start + o < r.end);
            kani::cover!(index > 0);
        }
    }

    #[kani::proof]
    #[kani::unwind(6)]
    pub fn slice_axis_matches_model_2() {
        let l: NdLayout<2> = any_layout_small();
        let axis: usize = kani::any();
        let s: u8 = kani::any();
        let e: u8 = kani::any();
        let range = (s as usize)..(e as usize);
        let res = l.slice_axis(axis, range.clone());
        let valid = axis < 2 && range.start <= range.end && range.end <= l.size(if axis < 2 { axis } else { 0 });
        assert!(res.is_ok() == valid, "slice_axis errors exactly on an invalid axis/range");
        if let Ok((r, out)) = res {
            assert!(r.start <= r.end && r.end <= l.min_data_len());
            for d in 0..2 {
                assert!(out.size(d) == if d == axis { range.end - range.start } else { l.size(d) });
                assert!(out.stride(d) == l.stride(d));
            }
            if out.len() > 0 {
                let j = any_index_in(out.shape());
                let mut i = j;
                i[axis] += range.start;
                let o = out.offset(j).unwrap();
                assert!(Some(r.start + o) == l.offset(i));
                assert!(r.start + o < r.end);
                kani::cover!(range.start > 0);
            }
        }
    }

    // ---------------------------------------------------------------- slice with SliceItems

    /// Index, or a range with step 1 (the stepped arithmetic is covered by
    /// `slice_stepped_matches_model_1` and, unboundedly, by the Verus unit U-slice-arith).
    fn any_slice_item_step1() -> SliceItem {
        if kani::any() {
            let i: i8 = kani::any();
            SliceItem::Index(i as isize)
        } else {
            let s: i8 = kani::any();
            let e: i8 = kani::any();
            let has_end: bool = kani::any();
            SliceItem::Range(SliceRange::new(s as isize, if has_end { Some(e as isize) } else { None }, 1))
        }
    }

    fn norm(i: isize, n: usize) -> isize { if i >= 0 { i } else { i + n as isize } }

    /// NdLayout<2>::slice::<M> against the reference model (NumPy basic slicing): element j of
    /// the result is element ref(j) of the source, sizes are the Python slice lengths, errors are
    /// reported exactly for out-of-range indices/endpoints and rank mismatches, and the returned
    /// offset range is within the source's data.
    macro_rules! slice_ok {
        ($name:ident, $m:expr) => {
            #[kani::proof]
            #[kani::unwind(6)]
            pub fn $name() {
                let l: NdLayout<2> = any_layout_small();
                let items = [any_slice_item_step1(), any_slice_item_step1()];
                let nitems: usize = kani::any();
                kani::assume(nitems <= 2);
                let res = l.slice::<$m>(&items[..nitems]);
                let mut valid = true;
                let mut out_rank = 0;
                let mut starts = [0usize; 2];
                let mut is_index = [false; 2];
                let mut sizes = [0usize; 2];
                for d in 0..2 {
                    let n = l.size(d);
                    if d >= nitems {
                        sizes[d] = n;
                        out_rank += 1;
                        continue;
                    }
                    match items[d] {
                        SliceItem::Index(i) => {
                            let p = norm(i, n);
                            if p < 0 || p >= n as isize { valid = false; } else { starts[d] = p as usize; }
                            is_index[d] = true;
                        }
                        SliceItem::Range(r) => {
                            out_rank += 1;
                            let s = norm(r.start, n);
                            let e = match r.end { Some(e) => norm(e, n), None => n as isize };
                            if s < 0 || s > n as isize || e < 0 || e > n as isize { valid = false; continue; }
                            let e = if e < s { s } else { e };
                            starts[d] = s as usize;
                            sizes[d] = (e - s) as usize;
                        }
                    }
                }
                if !valid || out_rank != $m {
                    assert!(res.is_err(), "invalid slice spec / rank mismatch must be an error");
                    return;
                }
                let (r, out) = match res { Ok(x) => x, Err(_) => { assert!(false, "valid slice spec rejected"); return; } };
                assert!(r.start <= r.end && r.end <= l.min_data_len(), "offset range inside source data");
                let mut k = 0;
                for d in 0..2 {
                    if !is_index[d] { assert!(out.size(k) == sizes[d], "Python slice length"); k += 1; }
                }
                if out.len() > 0 {
                    let j = any_index_in(out.shape());
                    let mut i = [0usize; 2];
                    let mut k = 0;
                    for d in 0..2 {
                        if is_index[d] { i[d] = starts[d]; } else { i[d] = starts[d] + j[k]; k += 1; }
                    }
                    let o = out.offset(j).unwrap();
                    assert!(Some(r.start + o) == l.offset(i), "element j of the slice is element ref(j) of the source");
                    assert!(r.start + o < r.end);
                    kani::cover!(starts[0] > 0);
                }
            }
        };
    }
    slice_ok!(slice_matches_model_2_to_2, 2);
    slice_ok!(slice_matches_model_2_to_1, 1);
    slice_ok!(slice_matches_model_2_to_0, 0);

    /// Rank-1 version of the model check above (quick tier): index or step-1 range, M in {0, 1}.
    macro_rules! slice1_ok {
        ($name:ident, $m:expr) => {
            #[kani::proof]
            #[kani::unwind(4)]
            pub fn $name() {
                let l: NdLayout<1> = any_layout_small();
                let n = l.size(0);
                let item = any_slice_item_step1();
                let nitems: usize = kani::any();
                kani::assume(nitems <= 1);
                let res = l.slice::<$m>(&[item][..nitems]);
                let (valid, is_index, start, size) = if nitems == 0 { (true, false, 0, n) } else {
                    match item {
                        SliceItem::Index(i) => { let p = norm(i, n); (p >= 0 && p < n as isize, true, p as usize, 0) }
                        SliceItem::Range(r) => {
                            let s = norm(r.start, n);
                            let e = match r.end { Some(e) => norm(e, n), None => n as isize };
                            let ok = s >= 0 && s <= n as isize && e >= 0 && e <= n as isize;
                            let e = if e < s { s } else { e };
                            (ok, false, s as usize, (e - s) as usize)
                        }
                    }
                };
                let out_rank = if is_index { 0 } else { 1 };
                if !valid || out_rank != $m {
                    assert!(res.is_err(), "invalid slice spec / rank mismatch must be an error");
                    return;
                }
                let (r, out) = match res { Ok(x) => x, Err(_) => { assert!(false, "valid slice spec rejected"); return; } };
                assert!(r.start <= r.end && r.end <= l.min_data_len(), "offset range inside source data");
                if !is_index { assert!(out.size(0) == size, "Python slice length"); }
                if out.len() > 0 {
                    let j = any_index_in(out.shape());
                    let i = if is_index { start } else { start + j.as_slice().first().copied().unwrap_or(0) };
                    let o = out.offset(j).unwrap();
                    assert!(Some(r.start + o) == l.offset([i]), "element j of the slice is element ref(j) of the source");
                    assert!(r.start + o < r.end);
                    kani::cover!(start > 0);
                }
            }
        };
    }
    slice1_ok!(slice_matches_model_1_to_1, 1);
    slice1_ok!(slice_matches_model_1_to_0, 0);

    /// Rank-1 slice with an arbitrary (i8) step: positive steps select start, start+step, ...
    /// below end (Python length), negative steps are reported as InvalidStep.
    #[kani::proof]
    #[kani::unwind(4)]
    pub fn slice_stepped_matches_model_1() {
        let l: NdLayout<1> = any_layout_small();
        let n = l.size(0);
        let (s, e, step): (i8, i8, i8) = (kani::any(), kani::any(), kani::any());
        kani::assume(step != 0);
        let has_end: bool = kani::any();
        let range = SliceRange::new(s as isize, if has_end { Some(e as isize) } else { None }, step as isize);
        let res = l.slice::<1>(&[SliceItem::Range(range)]);
        let ns = norm(s as isize, n);
        let ne = if has_end { norm(e as isize, n) } else { n as isize };
        let valid = step > 0 && ns >= 0 && ns <= n as isize && ne >= 0 && ne <= n as isize;
        assert!(res.is_ok() == valid, "errors exactly for negative steps / out-of-range endpoints");
        if let Ok((r, out)) = res {
            let ne = if ne < ns { ns } else { ne };
            let span = (ne - ns) as usize;
            let st = step as usize;
            let k = out.size(0);
            // k == ceil(span / st), stated without division
            assert!((k == 0 && span == 0) || (k > 0 && (k - 1) * st < span && span <= k * st), "Python slice length");
            assert!(out.stride(0) == l.stride(0) * st);
            assert!(r.start <= r.end && r.end <= l.min_data_len());
            if k > 0 {
                let j = any_index_in(out.shape());
                let o = out.offset(j).unwrap();
                assert!(Some(r.start + o) == l.offset([ns as usize + j[0] * st]));
                assert!(r.start + o < r.end);
                kani::cover!(st > 1 && j[0] > 0);
            }
        }
    }

    // ---------------------------------------------------------------- insert / remove / squeeze

    /// remove_dim (NdLayout<3> -> NdLayout<2>): the remaining dims keep their sizes and strides in
    /// order, so element j of the result is element ref(j) (index 0 on the removed size-1 dim).
    #[kani::proof]
    #[kani::unwind(6)]
    pub fn remove_dim_matches_model_3() {
        let l: NdLayout<3> = any_layout_small();
        let dim: usize = kani::any();
        kani::assume(dim < 3);
        let out = l.remove_dim(dim);
        let mut k = 0;
        for d in 0..3 {
            if d != dim { assert!(out.size(k) == l.size(d) && out.stride(k) == l.stride(d)); k += 1; }
        }
        if l.size(dim) == 1 && out.len() > 0 {
            let j = any_index_in(out.shape());
            let mut i = [0usize; 3];
            let mut k = 0;
            for d in 0..3 { if d != dim { i[d] = j[k]; k += 1; } }
            assert!(out.offset(j) == l.offset(i));
        }
    }

    /// insert_dim (NdLayout<2> -> NdLayout<3>): a size-1 dim appears at `dim`, the other dims keep
    /// their sizes and strides in order; every element keeps its offset.
    #[kani::proof]
    #[kani::unwind(6)]
    pub fn insert_dim_matches_model_2() {
        let l: NdLayout<2> = any_layout_small();
        let dim: usize = kani::any();
        kani::assume(dim <= 2);
        let out = l.insert_dim(dim);
        assert!(out.size(dim) == 1);
        let mut k = 0;
        for d in 0..3 {
            if d != dim { assert!(out.size(d) == l.size(k) && out.stride(d) == l.stride(k)); k += 1; }
        }
        assert!(out.len() == l.len());
        if l.len() > 0 {
            let i = any_index_in(l.shape());
            let mut j = [0usize; 3];
            let mut k = 0;
            for d in 0..3 { if d != dim { j[d] = i[k]; k += 1; } }
            assert!(out.offset(j) == l.offset(i));
            kani::cover!(dim == 1);
        }
    }

    /// squeezed (NdLayout<3> -> DynLayout): exactly the dims of size != 1 remain, in order, with
    /// their strides; the element count is unchanged.
    #[kani::proof]
    #[kani::unwind(8)]
    pub fn squeezed_matches_model_3() {
        let l: NdLayout<3> = any_layout_small();
        let out = l.squeezed();
        let mut k = 0;
        for d in 0..3 {
            if l.size(d) != 1 {
                assert!(k < out.ndim() && out.size(k) == l.size(d) && out.stride(k) == l.stride(d));
                k += 1;
            }
        }
        assert!(out.ndim() == k);
        assert!(out.len() == l.len());
    }

    // ---------------------------------------------------------------- documented panics (rejection)
    // should_panic + a cover that must be UNSATISFIABLE after the call (unit.json:
    // covers_must_be_unsat): the call never returns for an argument it documents as a panic.

    #[kani::proof]
    #[kani::should_panic]
    #[kani::unwind(6)]
    pub fn index_axis_rejects_invalid_axis_or_index() {
        let l: NdLayout<2> = any_layout_small();
        let (axis, index): (usize, usize) = (kani::any(), kani::any());
        kani::assume(axis >= 2 || index >= l.size(if axis < 2 { axis } else { 0 }));
        let _r = l.index_axis(axis, index);
        kani::cover!(true, "index_axis returned for an out-of-range axis/index");
    }

    #[kani::proof]
    #[kani::should_panic]
    #[kani::unwind(6)]
    pub fn split_rejects_invalid_axis_or_mid() {
        let l: NdLayout<2> = any_layout_small();
        let (axis, mid): (usize, usize) = (kani::any(), kani::any());
        kani::assume(axis >= 2 || mid > l.size(if axis < 2 { axis } else { 0 }));
        let _r = l.split(axis, mid);
        kani::cover!(true, "split returned for an out-of-range axis/mid");
    }

    #[kani::proof]
    #[kani::should_panic]
    #[kani::unwind(6)]
    pub fn permuted_rejects_non_permutation() {
        let l: NdLayout<3> = any_layout_small();
        let mut dims = [0usize; 3];
        for i in 0..3 { let d: u8 = kani::any(); dims[i] = d as usize; }
        // not a permutation of 0..3: some entry out of range or repeated
        kani::assume(dims[0] >= 3 || dims[1] >= 3 || dims[2] >= 3 || dims[0] == dims[1] || dims[0] == dims[2] || dims[1] == dims[2]);
        let _p = l.permuted(dims);
        kani::cover!(true, "permuted returned for a non-permutation");
    }

    // ---------------------------------------------------------------- broadcast / reshape

    #[kani::proof]
    #[kani::unwind(10)]
    pub fn broadcast_matches_model_2_to_3() {
        let l: NdLayout<2> = any_layout_small();
        let mut to = [0usize; 3];
        for i in 0..3 { let s: u8 = kani::any(); kani::assume(s <= 5); to[i] = s as usize; }
        // reference rule (NumPy): right-aligned, each source dim equals the target dim or is 1
        let ok = (l.size(0) == to[1] || l.size(0) == 1) && (l.size(1) == to[2] || l.size(1) == 1);
        assert!(l.can_broadcast_to(&to) == ok);
        let res: Result<NdLayout<3>, _> = l.broadcast(to);
        assert!(res.is_ok() == ok);
        if let Ok(b) = res {
            for k in 0..3 { assert!(b.size(k) == to[k]); }
            if b.len() > 0 {
                let j = any_index_in(to);
                let i = [if l.size(0) == 1 { 0 } else { j[1] }, if l.size(1) == 1 { 0 } else { j[2] }];
                assert!(b.offset(j) == l.offset(i), "broadcast element j reads source element ref(j)");
                kani::cover!(l.size(0) == 1 && to[1] > 1);
            }
        }
    }

    #[kani::proof]
    #[kani::unwind(10)]
    pub fn reshaped_for_view_matches_model_2_to_2() {
        let l: NdLayout<2> = any_layout_small();
        let mut to = [0usize; 2];
        for i in 0..2 { let s: u8 = kani::any(); kani::assume(s <= 25); to[i] = s as usize; }
        let contiguous = l.len() == 0 || ((l.stride(1) == 1 || l.size(1) == 1) && (l.stride(0) == l.size(1) || l.size(0) == 1));
        let res = l.reshaped_for_view(to);
        if res.is_ok() {
            assert!(l.is_contiguous(), "view-reshape needs a contiguous source");
            assert!(to[0] * to[1] == l.len(), "reshape never changes the element count");
            let out = res.unwrap();
            assert!(out.size(0) == to[0] && out.size(1) == to[1]);
            if out.len() > 0 {
                // row-major order is preserved: linear position of j in `out` == linear position in `l`
                let j = any_index_in(to);
                let lin = j[0] * to[1] + j[1];
                let i = [lin / l.size(1), lin % l.size(1)];
                assert!(out.offset(j) == Some(lin));
                if contiguous { assert!(l.offset(i) == Some(lin)); }
            }
        } else {
            assert!(!l.is_contiguous() || to[0] * to[1] != l.len(), "valid reshape rejected");
        }
        if l.len() > 0 { assert!(l.is_contiguous() == contiguous); }
    }

    #[kani::proof]
    pub fn canary() {
        let x: u8 = kani::any();
        assert!(x != 7);
    }
}
