#[cfg(kani)]
mod verif_samplers {
    use super::*;

    // ---------------------------------------------------------------- stubs
    /// Model of `fastrand::Rng::f32`: fastrand computes
    /// `f32::from_bits(0x3F80_0000 + (self.u32(..) >> 9)) - 1.0`; the generator output
    /// `self.u32(..)` is replaced by an arbitrary u32, i.e. the draw is any of the 2^23
    /// multiples of 2^-23 in [0, 1) (0.0 included).
    pub fn any_draw(_rng: &mut fastrand::Rng) -> f32 {
        let r = f32::from_bits(0x3F80_0000 + (kani::any::<u32>() >> 9)) - 1.0;
        kani::cover!(r == 0.0);
        kani::cover!(r > 0.5);
        r
    }

    /// As `any_draw`, but the draw is not exactly 0.0.
    pub fn any_positive_draw(_rng: &mut fastrand::Rng) -> f32 {
        let bits: u32 = kani::any();
        kani::assume((bits >> 9) != 0);
        let r = f32::from_bits(0x3F80_0000 + (bits >> 9)) - 1.0;
        kani::cover!(r > 0.0 && r < 0.001);
        r
    }

    // ---------------------------------------------------------------- helpers
    fn any_f32() -> f32 {
        f32::from_bits(kani::any::<u32>())
    }

    pub const N: usize = 4;

    // ---------------------------------------------------------------- ArgMax
    /// ArgMax returns the id of a candidate; without NaN that candidate's score is >= every
    /// score. Sparse logits: ids are arbitrary u32 (repetitions allowed), 1..=4 candidates.
    #[kani::proof]
    #[kani::unwind(6)]
    pub fn argmax_returns_id_of_maximal_score() {
        let n: usize = kani::any();
        kani::assume(n >= 1 && n <= N);
        let mut vals = [0.0f32; N];
        let mut ids = [0u32; N];
        let mut nan = false;
        let mut i = 0;
        while i < N {
            vals[i] = any_f32();
            ids[i] = kani::any();
            nan = nan || (i < n && vals[i].is_nan());
            i += 1;
        }
        let logits = Logits::sparse(vals[..n].to_vec(), ids[..n].to_vec());
        let r = ArgMax::new().sample(&logits);
        // some position p holds id r ...
        let mut in_set = false;
        // ... and (no NaN) some such position holds a maximal score
        let mut maximal = false;
        let mut p = 0;
        while p < N {
            if p < n && ids[p] == r {
                in_set = true;
                let mut ge_all = true;
                let mut q = 0;
                while q < N {
                    if q < n {
                        ge_all = ge_all && vals[p] >= vals[q];
                    }
                    q += 1;
                }
                maximal = maximal || ge_all;
            }
            p += 1;
        }
        assert!(in_set, "returned id belongs to a candidate");
        if !nan {
            assert!(maximal, "returned id has a maximal score");
        }
        kani::cover!(n == N && !nan);
        kani::cover!(n == 1);
        kani::cover!(nan);
        kani::cover!(!nan && n >= 2 && vals[0] == vals[1]);
        kani::cover!(!nan && n >= 2 && vals[0] == f32::NEG_INFINITY);
    }

    // ---------------------------------------------------------------- multinomial
    /// Probabilities as softmax produces them: each in [0, 1] (hence not NaN). The sum is left
    /// unconstrained (softmax output sums to 1 only up to rounding).
    fn any_probs() -> ([f32; N], usize) {
        let n: usize = kani::any();
        kani::assume(n >= 1 && n <= N);
        let mut probs = [0.0f32; N];
        let mut i = 0;
        while i < N {
            let v = any_f32();
            kani::assume(v >= 0.0 && v <= 1.0);
            probs[i] = v;
            i += 1;
        }
        (probs, n)
    }

    #[kani::proof]
    #[kani::stub(fastrand::Rng::f32, any_draw)]
    #[kani::unwind(6)]
    pub fn multinomial_index_in_range() {
        let (probs, n) = any_probs();
        let mut rng = fastrand::Rng::with_seed(1);
        let r = multinomial(&mut rng, &probs[..n]);
        if let Some(i) = r {
            assert!(i < n, "selected index is a candidate position");
        }
        kani::cover!(r.is_none());
        kani::cover!(r == Some(n - 1) && n == N);
        kani::cover!(r == Some(0));
    }

    /// Design finding D12: a draw of exactly 0.0 selects candidate 0 even if its probability is 0.
    #[kani::proof]
    #[kani::stub(fastrand::Rng::f32, any_draw)]
    #[kani::unwind(6)]
    pub fn multinomial_nonzero_probability() {
        let (probs, n) = any_probs();
        let mut rng = fastrand::Rng::with_seed(1);
        let r = multinomial(&mut rng, &probs[..n]);
        if let Some(i) = r {
            assert!(i < n && probs[i % N] > 0.0, "selected candidate has non-zero probability");
        }
        kani::cover!(r == Some(n - 1) && n == N);
    }

    #[kani::proof]
    #[kani::stub(fastrand::Rng::f32, any_positive_draw)]
    #[kani::unwind(6)]
    pub fn multinomial_nonzero_probability_positive_draw() {
        let (probs, n) = any_probs();
        let mut rng = fastrand::Rng::with_seed(1);
        let r = multinomial(&mut rng, &probs[..n]);
        if let Some(i) = r {
            assert!(i < n && probs[i % N] > 0.0, "selected candidate has non-zero probability");
        }
        kani::cover!(r == Some(n - 1) && n == N);
        kani::cover!(r == Some(1) && probs[0] == 0.0);
        kani::cover!(r.is_none());
    }

    #[kani::proof]
    pub fn canary() {
        let x: u8 = kani::any();
        assert!(x != 7);
    }
}
