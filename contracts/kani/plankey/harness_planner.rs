#[cfg(kani)]
mod verif_plankey {
    use super::*;

    /// Symbolic valid NodeId (every value `NodeId::from_u32` accepts).
    fn any_id() -> NodeId {
        let v: u32 = kani::any();
        kani::assume(v <= i32::MAX as u32);
        NodeId::from_u32(v)
    }

    fn any_ids<const N: usize>() -> [NodeId; N] {
        let mut out = [NodeId::from_u32(0); N];
        let mut i = 0;
        while i < N {
            out[i] = any_id();
            i += 1;
        }
        out
    }

    fn has_dup(xs: &[NodeId]) -> bool {
        let mut i = 0;
        while i < xs.len() {
            let mut j = i + 1;
            while j < xs.len() {
                if xs[i] == xs[j] {
                    return true;
                }
                j += 1;
            }
            i += 1;
        }
        false
    }

    fn contains(xs: &[NodeId], x: NodeId) -> bool {
        let mut i = 0;
        while i < xs.len() {
            if xs[i] == x {
                return true;
            }
            i += 1;
        }
        false
    }

    /// every element of `a` occurs in `b`
    fn subset(a: &[NodeId], b: &[NodeId]) -> bool {
        let mut i = 0;
        while i < a.len() {
            if !contains(b, a[i]) {
                return false;
            }
            i += 1;
        }
        true
    }

    pub const DUP_N: usize = 4;

    /// C26 "duplicated node IDs ... returns an error": `create_plan` reports the duplicate error
    /// iff `first_duplicate_by(ids, ==)` is `Some`. Demanded direction: a duplicate is never missed
    /// (and the scan itself never indexes out of range).
    #[kani::proof]
    #[kani::unwind(6)]
    pub fn first_duplicate_by_detects_duplicates() {
        let xs: [NodeId; DUP_N] = any_ids();
        let n: usize = kani::any();
        kani::assume(n <= DUP_N);
        let s = &xs[..n];
        let r = first_duplicate_by(s, |x, y| x == y);
        if has_dup(s) {
            assert!(r.is_some(), "a duplicated id must be reported");
            kani::cover!(n == DUP_N && xs[2] == xs[3] && xs[0] != xs[1]);
            kani::cover!(n == 2);
        } else {
            kani::cover!(n == DUP_N);
        }
    }

    /// Plan-cache hit: `matches` == true makes `Graph::get_cached_plan` skip `create_plan`'s
    /// validation of the request. Key: arbitrary ids of concrete length K (CachedPlan::new sorts
    /// them; symbolic-length sorts do not finish in CBMC). Request: symbolic length <= R.
    ///
    /// The cached key went through `create_plan`, hence is duplicate-free (assumed, witnessed by
    /// the covers).
    ///
    /// accepts_only_key_ids: hit => same number of ids and every requested id is a key id
    ///   (so unknown / operator / non-value ids can never ride on a cached plan).
    fn check_only_key_ids<const K: usize, const R: usize>(on_inputs: bool) {
        let key: [NodeId; K] = any_ids();
        kani::assume(!has_dup(&key));
        let other: [NodeId; 1] = any_ids();
        let req: [NodeId; R] = any_ids();
        let n: usize = kani::any();
        kani::assume(n <= R);
        let req = &req[..n];
        let hit = if on_inputs {
            let plan = CachedPlan::new(&key, &other, Vec::new());
            plan.matches(req, &other)
        } else {
            let plan = CachedPlan::new(&other, &key, Vec::new());
            plan.matches(&other, req)
        };
        if hit {
            assert!(req.len() == K, "cache hit with a different number of ids");
            assert!(subset(req, &key), "cache hit for an id that is not in the cached key");
        }
        kani::cover!(hit);
        kani::cover!(!hit && n > 0);
    }

    /// accepts_only_permutations: the cached key went through `create_plan`, hence is
    /// duplicate-free (assumed, witnessed by a cover). hit => every key id is supplied by the
    /// request; with equal length this makes the request a permutation of the key, so it is
    /// duplicate-free and has no missing input.
    fn check_only_permutations<const K: usize, const R: usize>(on_inputs: bool) {
        let key: [NodeId; K] = any_ids();
        kani::assume(!has_dup(&key));
        let other: [NodeId; 1] = any_ids();
        let req: [NodeId; R] = any_ids();
        let n: usize = kani::any();
        kani::assume(n <= R);
        let req = &req[..n];
        let hit = if on_inputs {
            let plan = CachedPlan::new(&key, &other, Vec::new());
            plan.matches(req, &other)
        } else {
            let plan = CachedPlan::new(&other, &key, Vec::new());
            plan.matches(&other, req)
        };
        if hit {
            assert!(subset(&key, req), "cache hit although an id of the cached key is missing from the request (request has a duplicate)");
            assert!(!has_dup(req), "cache hit for a request with a duplicated id");
        }
        kani::cover!(hit);
        kani::cover!(!hit && n == K);
    }

    #[kani::proof]
    #[kani::unwind(6)]
    pub fn matches_only_key_ids_inputs_k0() { check_only_key_ids::<0, 2>(true) }
    #[kani::proof]
    #[kani::unwind(6)]
    pub fn matches_only_key_ids_inputs_k1() { check_only_key_ids::<1, 3>(true) }
    #[kani::proof]
    #[kani::unwind(6)]
    pub fn matches_only_key_ids_inputs_k2() { check_only_key_ids::<2, 3>(true) }
    #[kani::proof]
    #[kani::unwind(6)]
    pub fn matches_only_key_ids_inputs_k3() { check_only_key_ids::<3, 3>(true) }
    #[kani::proof]
    #[kani::unwind(6)]
    pub fn matches_only_key_ids_outputs_k1() { check_only_key_ids::<1, 3>(false) }
    #[kani::proof]
    #[kani::unwind(6)]
    pub fn matches_only_key_ids_outputs_k2() { check_only_key_ids::<2, 3>(false) }
    #[kani::proof]
    #[kani::unwind(6)]
    pub fn matches_only_key_ids_outputs_k3() { check_only_key_ids::<3, 3>(false) }

    #[kani::proof]
    #[kani::unwind(6)]
    pub fn matches_only_permutations_inputs_k2() { check_only_permutations::<2, 3>(true) }
    #[kani::proof]
    #[kani::unwind(6)]
    pub fn matches_only_permutations_inputs_k3() { check_only_permutations::<3, 3>(true) }
    #[kani::proof]
    #[kani::unwind(6)]
    pub fn matches_only_permutations_outputs_k2() { check_only_permutations::<2, 3>(false) }
    #[kani::proof]
    #[kani::unwind(6)]
    pub fn matches_only_permutations_outputs_k3() { check_only_permutations::<3, 3>(false) }

    #[kani::proof]
    pub fn canary() {
        let x: u8 = kani::any();
        assert!(x != 7);
    }
}
