#[cfg(kani)]
mod verif_refcount {
    use super::*;

    pub const CAP: usize = 4;

    /// `Graph::run_plan` sizes the table with `next_node_id` and then calls inc/dec/count with
    /// ids of existing nodes (id < capacity). None of them may panic (index, overflow), also when
    /// a count saturates at u8::MAX or is decremented at zero.
    #[kani::proof]
    #[kani::unwind(6)]
    pub fn node_refcount_no_panic() {
        let mut rc = NodeRefCount::with_capacity(CAP);
        let mut i = 0;
        while i < CAP {
            rc.rc[i] = kani::any();
            i += 1;
        }
        let v: u32 = kani::any();
        kani::assume((v as usize) < CAP);
        let id = NodeId::from_u32(v);
        let before = rc.count(id);
        rc.inc(id);
        let _ = rc.count(id);
        let _ = rc.dec(id);
        let _ = rc.dec(id);
        let _ = rc.count(id);
        kani::cover!(before == u8::MAX as usize);
        kani::cover!(before == 0 && v as usize == CAP - 1);
    }
}
