#[cfg(kani)]
mod verif_encchunks {
    //! C29: the REAL `Tokenizer::encode_chunks` with a byte-level stand-in model (every byte of
    //! the input is one token whose id is the byte; "[CLS]" / "[SEP]" are ids 1000 / 1001), no
    //! normalizer and no pre-tokenizer. Inputs are short concrete strings; the chunk limit, the
    //! overlap and the presence of CLS/SEP are symbolic.
    //!
    //! Checked, per the property statement: every chunk has at most `max_chunk_len` tokens
    //! including special tokens; each chunk's content tokens are a contiguous window of the
    //! full encoding; consecutive windows start `window - overlap` apart (except the known
    //! finding D11 about the trailing short window, which is U-chunks' obligation, not repeated
    //! here: windows are only required to start where the previous window's stride says, or to
    //! be the trailing remainder); together the windows cover every content token in order.
    use super::*;
    use crate::models::{DecodeError, EncodeError, Model};

    struct ByteModel;

    impl Model for ByteModel {
        fn get_token_id(&self, token: &str) -> Option<TokenId> {
            match token {
                "[CLS]" => Some(1000),
                "[SEP]" => Some(1001),
                _ => None,
            }
        }
        fn get_token_str(&self, _id: TokenId) -> Option<String> {
            None
        }
        fn encode_with_offsets(
            &self,
            text: &str,
            on_token: &mut dyn FnMut(usize, TokenId),
        ) -> Result<(), EncodeError> {
            let bytes = text.as_bytes();
            let mut i = 0;
            while i < bytes.len() {
                on_token(i, bytes[i] as TokenId);
                i += 1;
            }
            Ok(())
        }
        fn decode(&self, _ids: &[TokenId]) -> Result<String, DecodeError> {
            Ok(String::new())
        }
    }

    fn tokenizer(cls: bool, sep: bool) -> Tokenizer {
        Tokenizer::new(
            ByteModel,
            TokenizerOptions {
                cls_token: if cls { Some("[CLS]") } else { None },
                sep_token: if sep { Some("[SEP]") } else { None },
            },
        )
    }

    fn index_of(full: &[u8], id: TokenId) -> usize {
        let mut i = 0;
        while i < full.len() {
            if full[i] as TokenId == id {
                return i;
            }
            i += 1;
        }
        usize::MAX
    }

    /// `content`: the content tokens of chunk `c` of `n_chunks` (special tokens stripped by the
    /// caller); `full`: the full encoding (distinct bytes, so a token identifies its position).
    /// Returns the end of the window. Windows must be contiguous slices of `full`; every window
    /// but the last is full-sized and starts exactly `window - overlap` after its predecessor;
    /// the last one ends at the end of the encoding and leaves no gap. (Whether the *trailing
    /// short* window overlaps its predecessor by exactly `overlap` is known finding D11 of
    /// U-chunks and deliberately not demanded again here.)
    fn check_window(content: &[TokenId], full: &[u8], c: usize, n_chunks: usize, window: usize,
                    overlap: usize, covered: usize) -> usize {
        let n = content.len();
        assert!(n >= 1 && n <= window, "window size");
        let start = index_of(full, content[0]);
        assert!(start != usize::MAX);
        let mut k = 0;
        while k < n {
            assert!(start + k < full.len(), "window runs past the encoding");
            assert!(content[k] == full[start + k] as TokenId, "content is not a contiguous window of the full encoding");
            k += 1;
        }
        if c + 1 < n_chunks {
            assert!(n == window, "only the last window may be short");
            assert!(start == c * (window - overlap), "consecutive windows overlap by exactly the requested amount");
        } else {
            assert!(start + n == full.len(), "windows do not cover every content token");
        }
        assert!(start <= covered, "a content token is skipped between windows");
        start + n
    }

    fn any_opts() -> (bool, bool, usize, usize) {
        let cls: bool = kani::any();
        let sep: bool = kani::any();
        let max: u8 = kani::any();
        let overlap: u8 = kani::any();
        kani::assume(max <= 8 && overlap <= 2);
        (cls, sep, max as usize, overlap as usize)
    }

    fn check_single(text: &'static str) {
        let (cls, sep, max, overlap) = any_opts();
        let overhead = cls as usize + sep as usize;
        let window = max.saturating_sub(overhead);
        // overlap >= window is rejected by chunks_with_overlap (documented panic, U-chunks)
        kani::assume(window == 0 || overlap < window);
        let t = tokenizer(cls, sep);
        let opts = EncodeOptions { max_chunk_len: Some(max), overlap };
        let chunks = t.encode_chunks(EncoderInput::Item(text), opts).unwrap();
        let full = text.as_bytes();
        if window == 0 {
            assert!(chunks.is_empty());
            return;
        }
        assert!(!chunks.is_empty());
        let mut covered = 0usize;
        let mut c = 0;
        while c < chunks.len() {
            let ids = chunks[c].token_ids();
            assert!(ids.len() <= max, "chunk exceeds the requested number of tokens");
            let first = cls as usize;
            let last = ids.len() - sep as usize;
            if cls { assert!(ids[0] == 1000); }
            if sep { assert!(ids[last] == 1001); }
            covered = check_window(&ids[first..last], full, c, chunks.len(), window, overlap, covered);
            c += 1;
        }
        kani::cover!(chunks.len() >= 3);
        kani::cover!(cls && !sep);
    }

    fn check_pair(a: &'static str, b: &'static str) {
        let (cls, sep, max, overlap) = any_opts();
        let overhead = cls as usize + 2 * (sep as usize);
        let total = max.saturating_sub(overhead);
        let first_len = if a.len() < total { a.len() } else { total };
        let window = if b.len() < total - first_len { b.len() } else { total - first_len };
        kani::assume(window == 0 || overlap < window);
        let t = tokenizer(cls, sep);
        let opts = EncodeOptions { max_chunk_len: Some(max), overlap };
        let chunks = t.encode_chunks(EncoderInput::Pair((a, b)), opts).unwrap();
        if window == 0 {
            assert!(chunks.is_empty());
            return;
        }
        assert!(!chunks.is_empty());
        let fa = a.as_bytes();
        let fb = b.as_bytes();
        let mut covered = 0usize;
        let mut c = 0;
        while c < chunks.len() {
            let ids = chunks[c].token_ids();
            assert!(ids.len() <= max, "chunk exceeds the requested number of tokens");
            let mut p = 0;
            if cls { assert!(ids[0] == 1000); p = 1; }
            let mut k = 0;
            while k < first_len {
                assert!(ids[p + k] == fa[k] as TokenId, "first sequence is a prefix of its encoding");
                k += 1;
            }
            p += first_len;
            if sep { assert!(ids[p] == 1001); p += 1; }
            let last = ids.len() - sep as usize;
            if sep { assert!(ids[last] == 1001); }
            covered = check_window(&ids[p..last], fb, c, chunks.len(), window, overlap, covered);
            c += 1;
        }
        kani::cover!(chunks.len() >= 2);
        kani::cover!(sep && !cls);
    }

    #[kani::proof]
    #[kani::unwind(10)]
    pub fn encode_chunks_single_6() {
        check_single("abcdef");
    }

    #[kani::proof]
    #[kani::unwind(10)]
    pub fn encode_chunks_pair_2_5() {
        check_pair("xy", "abcde");
    }

    #[kani::proof]
    pub fn canary() {
        let x: u8 = kani::any();
        assert!(x != 7);
    }
}
