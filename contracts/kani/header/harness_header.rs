#[cfg(kani)]
mod verif_header {
    use super::*;

    /// Size of the symbolic file prefix. `Header::from_buf` only reads the first 32 bytes and
    /// `buf.len()`; every offset/length field is a full symbolic u64 decoded from those bytes,
    /// so the wrapping cases (`model_offset + model_len >= 2^64`) are inside the domain.
    pub const B: usize = 64;

    fn any_file<'a>(data: &'a [u8; B]) -> &'a [u8] {
        let n: usize = kani::any();
        kani::assume(n <= B);
        &data[..n]
    }

    /// C05 "headers with out-of-range offsets": whatever the bytes are, `from_buf` returns
    /// `Ok` or `Err` -- no panic, no arithmetic overflow, no out-of-bounds read (Kani's default
    /// checks). Nothing else is asserted here.
    #[kani::proof]
    pub fn from_buf_total() {
        let data: [u8; B] = kani::any();
        let buf = any_file(&data);
        let r = Header::from_buf(buf);
        kani::cover!(r.is_ok());
        kani::cover!(r.is_err());
    }

    /// The bounds decision the .rten loader relies on: `Ok(h)` implies that the model segment
    /// `h.model_offset .. h.model_offset + h.model_len`, computed over the integers (u128 ghost
    /// arithmetic), lies inside the file. This is exactly what makes
    /// `&file_data[offset..offset + len]` in `rten_loader::load` in-bounds and overflow-free.
    #[kani::proof]
    pub fn from_buf_model_segment_within_file() {
        let data: [u8; B] = kani::any();
        let buf = any_file(&data);
        let n = buf.len() as u128;
        if let Ok(h) = Header::from_buf(buf) {
            assert!(
                h.model_offset as u128 + h.model_len as u128 <= n,
                "Ok(header): model_offset + model_len (over the integers) must not exceed the file size"
            );
            kani::cover!(h.model_len > 0);
            kani::cover!(h.model_offset as u128 + h.model_len as u128 == n);
        }
    }

    #[kani::proof]
    pub fn canary() {
        let x: u8 = kani::any();
        assert!(x != 7);
    }
}
