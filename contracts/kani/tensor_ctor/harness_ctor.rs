#[cfg(kani)]
mod verif_ctor {
    use super::*;
    use crate::layout::{Layout, MutLayout, NdLayout, OverlapPolicy};
    #[allow(unused_imports)]
    use crate::storage::IntoStorage;

    const MAXLEN: usize = 4;

    /// valid(t): every in-bounds index maps (over the integers) to an offset < storage length.
    /// Computed with checked usize arithmetic: the integer maximum offset sum (shape-1)*stride is
    /// < storage_len (<= 4) iff no step overflows and the checked sum is < storage_len.
    fn valid(shape: &[usize], strides: &[usize], storage_len: usize) -> bool {
        let mut m: Option<usize> = Some(0);
        let mut empty = false;
        for i in 0..shape.len() {
            if shape[i] == 0 {
                empty = true;
            } else {
                m = match m {
                    Some(acc) => match (shape[i] - 1).checked_mul(strides[i]) {
                        Some(t) => acc.checked_add(t),
                        None => None,
                    },
                    None => None,
                };
            }
        }
        if empty { true } else { match m { Some(m) => m < storage_len, None => false } }
    }

    /// number of elements over the integers equals `len` (len <= 4)
    fn count_is(shape: &[usize], len: usize) -> bool {
        let mut c: Option<usize> = Some(1);
        let mut zero = false;
        for i in 0..shape.len() {
            if shape[i] == 0 { zero = true; }
            c = match c { Some(acc) => acc.checked_mul(shape[i]), None => None };
        }
        if zero { len == 0 } else { c == Some(len) }
    }

    /// Stand-in for std's sort_unstable inside may_have_internal_overlap (see U-overlap, where the
    /// stub itself is checked): CBMC cannot execute std's sort on a symbolic-length slice.
    pub fn insertion_sort<T: Ord>(v: &mut [T]) {
        let n = v.len();
        let mut i = 1;
        while i < n {
            let mut j = i;
            while j > 0 && v[j - 1] > v[j] {
                v.swap(j - 1, j);
                j -= 1;
            }
            i += 1;
        }
    }

    fn any_vec() -> Vec<u8> {
        let len: usize = kani::any();
        kani::assume(len <= MAXLEN);
        vec![0u8; len]
    }

    macro_rules! ctor_harnesses {
        ($try_from_data:ident, $with_strides:ident, $slice_with_strides:ident, $n:expr) => {
            /// try_from_data: Ok(t) => t's layout is valid for its storage (over Z, so a shape
            /// whose element count / max offset overflows must be rejected) and len == #elements.
            #[kani::proof]
            #[kani::unwind(6)]
            pub fn $try_from_data() {
                let shape: [usize; $n] = kani::any();
                let data = any_vec();
                let len = data.len();
                let res = NdTensor::<u8, $n>::try_from_data(shape, data);
                if let Ok(t) = res {
                    let st = t.strides();
                    assert!(valid(&shape, &st, len), "accepted tensor can index past its storage");
                    assert!(count_is(&shape, len), "element count matches the backing data");
                    kani::cover!(len == 4);
                } else {
                    // never rejects a matching shape
                    assert!(!count_is(&shape, len), "matching shape/data rejected");
                }
            }

            /// from_data_with_strides: Ok(t) => valid(t).
            #[kani::proof]
            #[kani::unwind(6)]
            #[kani::stub(<[(usize, usize)]>::sort_unstable, insertion_sort)]
            pub fn $with_strides() {
                let shape: [usize; $n] = kani::any();
                let strides: [usize; $n] = kani::any();
                let data = any_vec();
                let len = data.len();
                let res = NdTensor::<u8, $n>::from_data_with_strides(shape, data, strides);
                if res.is_ok() {
                    assert!(valid(&shape, &strides, len), "accepted tensor can index past its storage");
                    kani::cover!(len > 1);
                }
            }

            /// from_slice_with_strides (overlap allowed for immutable views): Ok(v) => valid(v).
            #[kani::proof]
            #[kani::unwind(6)]
            pub fn $slice_with_strides() {
                let shape: [usize; $n] = kani::any();
                let strides: [usize; $n] = kani::any();
                let buf = [0u8; MAXLEN];
                let len: usize = kani::any();
                kani::assume(len <= MAXLEN);
                let res = NdTensorView::<u8, $n>::from_slice_with_strides(shape, &buf[..len], strides);
                if res.is_ok() {
                    assert!(valid(&shape, &strides, len), "accepted view can index past its storage");
                    kani::cover!(len > 1);
                } else {
                    assert!(!valid(&shape, &strides, len), "valid view rejected");
                }
            }
        };
    }
    ctor_harnesses!(try_from_data_valid_1, from_data_with_strides_valid_1, from_slice_with_strides_valid_1, 1);
    ctor_harnesses!(try_from_data_valid_2, from_data_with_strides_valid_2, from_slice_with_strides_valid_2, 2);
    ctor_harnesses!(try_from_data_valid_3, from_data_with_strides_valid_3, from_slice_with_strides_valid_3, 3);

    /// Safe indexing after construction: for an accepted rank-2 view every in-bounds index
    /// reads inside the buffer (get() is Some exactly for in-bounds indices; the returned
    /// reference points into `buf`).
    #[kani::proof]
    #[kani::unwind(6)]
    pub fn view_get_in_bounds_2() {
        let shape: [usize; 2] = kani::any();
        let strides: [usize; 2] = kani::any();
        let buf: [u8; MAXLEN] = kani::any();
        let len: usize = kani::any();
        kani::assume(len <= MAXLEN);
        if let Ok(v) = NdTensorView::<u8, 2>::from_slice_with_strides(shape, &buf[..len], strides) {
            let idx: [usize; 2] = kani::any();
            let inb = idx[0] < shape[0] && idx[1] < shape[1];
            match v.get(idx) {
                Some(x) => {
                    assert!(inb);
                    // in-bounds index of a valid view: products are <= max offset < len <= 4
                    let off = idx[0].checked_mul(strides[0]).and_then(|a| idx[1].checked_mul(strides[1]).and_then(|b| a.checked_add(b)));
                    assert!(off.is_some() && off.unwrap() < len, "read outside the buffer");
                    assert!(*x == buf[off.unwrap()]);
                    kani::cover!(off.unwrap() > 0);
                }
                None => assert!(!inb),
            }
        }
    }

    /// TensorBase::expanded_layout / has_capacity / append (capacity expansion of owned tensors):
    /// a layout returned for growing `axis` fits the Vec's capacity and maps distinct indices to
    /// distinct offsets. The tensor is built directly from a concrete small shape and symbolic
    /// strides, under the type's invariant for owned (mutable) tensors -- the layout is injective
    /// ($inj, the explicit condition for that shape) and fits the data -- so that the only
    /// overlap computation in the harness is the one inside expanded_layout.
    macro_rules! expanded_layout_ok {
        ($name:ident, $shape:expr, $axis:expr, $inj:expr) => {
            #[kani::proof]
            #[kani::unwind(12)]
            pub fn $name() {
                let shape: [usize; 2] = $shape;
                let (s0, s1): (u8, u8) = (kani::any(), kani::any());
                kani::assume(s0 <= 16 && s1 <= 16);
                let strides = [s0 as usize, s1 as usize];
                let inj: fn(usize, usize) -> bool = $inj;
                kani::assume(inj(strides[0], strides[1]));
                let layout = NdLayout::<2>::from_shape_and_strides(shape, strides, OverlapPolicy::AllowOverlap).unwrap();
                kani::assume(layout.min_data_len() <= 16);
                let t: TensorBase<Vec<u8>, NdLayout<2>> = TensorBase { data: vec![0u8; 16], layout };
                // concrete axis: the expanded shape is concrete, so the overlap check inside
                // expanded_layout collects and sorts a concrete number of dims
                let axis: usize = $axis;
                let new_size = shape[axis] + 1;
                if let Some(l) = t.expanded_layout(axis, new_size) {
                    assert!(l.min_data_len() <= 16, "expanded layout exceeds the capacity");
                    assert!(l.size(axis) == new_size && l.size(1 - axis) == shape[1 - axis]);
                    let (i0, i1, j0, j1): (u8, u8, u8, u8) = (kani::any(), kani::any(), kani::any(), kani::any());
                    let (i, j) = ([i0 as usize, i1 as usize], [j0 as usize, j1 as usize]);
                    kani::assume(i[0] < l.size(0) && i[1] < l.size(1) && j[0] < l.size(0) && j[1] < l.size(1));
                    if i[0] != j[0] || i[1] != j[1] {
                        assert!(l.offset(i) != l.offset(j), "expanded layout aliases two indices of a mutable tensor");
                        kani::cover!(true);
                    }
                }
            }
        };
    }
    // [1,4]: offsets {k*s1}: injective iff s1 != 0 (the stride of the size-1 dim is irrelevant)
    expanded_layout_ok!(expanded_layout_no_alias_1x4_axis0, [1, 4], 0, |_s0, s1| s1 != 0);
    expanded_layout_ok!(expanded_layout_no_alias_1x4_axis1, [1, 4], 1, |_s0, s1| s1 != 0);
    // [2,2]: offsets {0, s1, s0, s0+s1}
    expanded_layout_ok!(expanded_layout_no_alias_2x2_axis0, [2, 2], 0, |s0, s1| s0 != 0 && s1 != 0 && s0 != s1);
    expanded_layout_ok!(expanded_layout_no_alias_2x2_axis1, [2, 2], 1, |s0, s1| s0 != 0 && s1 != 0 && s0 != s1);
    // [3,1]: offsets {k*s0}
    expanded_layout_ok!(expanded_layout_no_alias_3x1_axis0, [3, 1], 0, |s0, _s1| s0 != 0);
    expanded_layout_ok!(expanded_layout_no_alias_3x1_axis1, [3, 1], 1, |s0, _s1| s0 != 0);

    /// from_storage_and_layout documents a panic when the storage is too short for the layout:
    /// the call must never return in that case (should_panic + unsatisfiable cover).
    #[kani::proof]
    #[kani::should_panic]
    #[kani::unwind(6)]
    pub fn from_storage_and_layout_rejects_short_storage() {
        let shape: [usize; 2] = kani::any();
        let strides: [usize; 2] = kani::any();
        let buf = [0u8; MAXLEN];
        let len: usize = kani::any();
        kani::assume(len <= MAXLEN);
        kani::assume(!valid(&shape, &strides, len));
        let layout = NdLayout::<2>::from_shape_and_strides(shape, strides, OverlapPolicy::AllowOverlap).unwrap();
        let _t = NdTensorView::<u8, 2>::from_storage_and_layout((&buf[..len]).into_storage(), layout);
        kani::cover!(true, "from_storage_and_layout returned for a layout that does not fit the storage");
    }

    #[kani::proof]
    pub fn canary() {
        let x: u8 = kani::any();
        assert!(x != 7);
    }
}
