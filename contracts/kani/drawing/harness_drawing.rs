#[cfg(kani)]
mod verif_drawing {
    //! C36 (drawing half): frame conditions of the REAL drawing primitives of this file.
    //!
    //! Scheme of every frame harness: build a symbolic `u8` image, keep a copy, call the real
    //! function with symbolic shape coordinates from a window that extends beyond the image on
    //! all sides, then pick a *symbolic* pixel (universally quantified) and assert
    //!     new[y,x] != old[y,x]  ==>  (y,x) in  image /\ shape bounds.
    //! Panics / out-of-bounds / arithmetic overflow inside the real code are Kani default checks.
    //! Nothing here demands that covered pixels are actually painted (the property does not).
    use super::*;
    use rten_tensor::NdTensor;
    use rten_tensor::prelude::*;

    /// Image height and width of the frame harnesses. Deliberately not square, so that a
    /// rows/columns mix-up in the code under check is visible.
    const H: usize = 3;
    const W: usize = 4;
    /// Upper bound of both (storage of the symbolic image).
    const N: usize = 4;
    /// Coordinate window [LO, HI]: three pixels beyond the image on every side.
    const LO: i32 = -3;
    const HI: i32 = 7;
    /// Largest rect side in the windowed rect harnesses.
    const MAX_SIDE: i32 = 6;

    // ------------------------------------------------------------------ generators

    /// Symbolic coordinate in [LO, HI] (narrow type to keep bit-blasting small).
    fn any_coord() -> i32 {
        let v: i8 = kani::any();
        kani::assume(v >= LO as i8 && v <= HI as i8);
        v as i32
    }

    /// (copy of the initial image, image) with symbolic contents.
    fn any_image<const R: usize, const C: usize>() -> (NdTensor<u8, 2>, NdTensor<u8, 2>) {
        let cells: [u8; N * N] = kani::any();
        let data = cells[..R * C].to_vec();
        let old = NdTensor::<u8, 2>::from_data([R, C], data.clone());
        let img = NdTensor::<u8, 2>::from_data([R, C], data);
        (old, img)
    }

    /// Symbolic pixel of an R x C image.
    fn any_px<const R: usize, const C: usize>() -> (usize, usize) {
        let y: u8 = kani::any();
        let x: u8 = kani::any();
        kani::assume((y as usize) < R && (x as usize) < C);
        (y as usize, x as usize)
    }

    fn changed(old: &NdTensor<u8, 2>, new: &NdTensor<u8, 2>, y: usize, x: usize) -> bool {
        old[[y, x]] != new[[y, x]]
    }

    /// (y, x) inside the half-open rect [t, b) x [l, r).
    fn in_rect(y: usize, x: usize, t: i32, l: i32, b: i32, r: i32) -> bool {
        let (y, x) = (y as i32, x as i32);
        t <= y && y < b && l <= x && x < r
    }

    /// (y, x) inside the closed box spanned by two points (any order).
    fn in_closed_box(y: usize, x: usize, p: Point, q: Point) -> bool {
        let (y, x) = (y as i32, x as i32);
        p.y.min(q.y) <= y && y <= p.y.max(q.y) && p.x.min(q.x) <= x && x <= p.x.max(q.x)
    }

    /// Reference clamp of a coordinate into [0, n-1] (n >= 1).
    fn z_clamp(v: i32, n: usize) -> i32 {
        if v < 0 {
            0
        } else if v > n as i32 - 1 {
            n as i32 - 1
        } else {
            v
        }
    }

    fn z_clamp_pt(p: Point) -> Point {
        Point::from_yx(z_clamp(p.y, H), z_clamp(p.x, W))
    }

    // ------------------------------------------------------------------ fill_rect

    /// Rect inside the image (edges in [0, H] x [0, W], possibly inverted / empty):
    /// only pixels inside the rect change.
    #[kani::proof]
    #[kani::unwind(5)]
    pub fn fill_rect_in_image() {
        let (old, mut img) = any_image::<H, W>();
        let (t, l, b, r) = (
            any_edge_in::<H>(),
            any_edge_in::<W>(),
            any_edge_in::<H>(),
            any_edge_in::<W>(),
        );
        let v: u8 = kani::any();
        fill_rect(img.view_mut(), Rect::from_tlbr(t, l, b, r), v);
        let (y, x) = any_px::<H, W>();
        if changed(&old, &img, y, x) {
            assert!(in_rect(y, x, t, l, b, r), "fill_rect changed a pixel outside the rect");
        }
        kani::cover!(changed(&old, &img, y, x), "some pixel is changed");
        kani::cover!(b < t || r < l, "inverted rect reaches the end");
        kani::cover!(t == 0 && l == 0 && b == H as i32 && r == W as i32, "full-image rect");
    }

    /// Any rect with coordinates in [LO, HI] (partly or wholly outside the image, inverted,
    /// empty): no panic, and only pixels inside image /\ rect change.
    #[kani::proof]
    #[kani::unwind(8)]
    pub fn fill_rect_any_rect() {
        let (old, mut img) = any_image::<H, W>();
        let (t, l, b, r) = (any_coord(), any_coord(), any_coord(), any_coord());
        // Side lengths <= MAX_SIDE (two more than the image: the rect can overhang on both
        // sides at once); keeps the loop unwinding small.
        kani::assume(b - t <= MAX_SIDE && r - l <= MAX_SIDE);
        let v: u8 = kani::any();
        fill_rect(img.view_mut(), Rect::from_tlbr(t, l, b, r), v);
        let (y, x) = any_px::<H, W>();
        if changed(&old, &img, y, x) {
            assert!(in_rect(y, x, t, l, b, r), "fill_rect changed a pixel outside the rect");
        }
        kani::cover!(changed(&old, &img, y, x), "some pixel is changed");
        kani::cover!(b < t || r < l, "inverted rect reaches the end");
        kani::cover!(
            t < 0 && b - t == MAX_SIDE && l > 0 && r > W as i32 && changed(&old, &img, y, x),
            "rect overhanging three sides of the image changes a pixel"
        );
    }

    // ------------------------------------------------------------------ stroke_rect

    /// Border band of width `w` of the rect [t, b) x [l, r).
    fn in_band(y: usize, x: usize, t: i32, l: i32, b: i32, r: i32, w: i32) -> bool {
        let (yi, xi) = (y as i32, x as i32);
        in_rect(y, x, t, l, b, r) && (yi - t < w || b - 1 - yi < w || xi - l < w || r - 1 - xi < w)
    }

    /// Symbolic coordinate in [0, m] (an in-image rect edge of an m x m image).
    fn any_edge_in<const M: usize>() -> i32 {
        let v: u8 = kani::any();
        kani::assume(v as usize <= M);
        v as i32
    }

    /// Non-inverted rect inside the M x M image, border width not larger than either side:
    /// only pixels on the border band of that width change.
    fn stroke_rect_band<const M: usize>() {
        let (old, mut img) = any_image::<M, M>();
        let (t, l, b, r) = (any_edge_in::<M>(), any_edge_in::<M>(), any_edge_in::<M>(), any_edge_in::<M>());
        let w: u8 = kani::any();
        kani::assume(t <= b && l <= r);
        kani::assume(w as i32 <= b - t && w as i32 <= r - l);
        let v: u8 = kani::any();
        stroke_rect(img.view_mut(), Rect::from_tlbr(t, l, b, r), v, w as u32);
        let (y, x) = any_px::<M, M>();
        if changed(&old, &img, y, x) {
            assert!(
                in_band(y, x, t, l, b, r, w as i32),
                "stroke_rect changed a pixel off the border band"
            );
        }
        kani::cover!(changed(&old, &img, y, x), "some pixel is changed");
        kani::cover!(w == 1 && b - t == M as i32 && r - l == M as i32, "width 1 on the full image");
        kani::cover!(w == 0, "zero width");
    }

    #[kani::proof]
    #[kani::unwind(4)]
    pub fn stroke_rect_in_image_band_3() {
        stroke_rect_band::<3>();
    }

    #[kani::proof]
    #[kani::unwind(5)]
    pub fn stroke_rect_in_image_band_4() {
        stroke_rect_band::<4>();
    }

    /// Rect inside the M x M image (possibly inverted), any border width whose four edge rects
    /// stay inside the image (so that `fill_rect` is only called with in-image rects): only
    /// pixels inside the rect change. Separates "stroke wider than the rect / inverted rect"
    /// from fill_rect's missing clipping.
    fn stroke_rect_wide<const M: usize>() {
        let (old, mut img) = any_image::<M, M>();
        let (t, l, b, r) = (any_edge_in::<M>(), any_edge_in::<M>(), any_edge_in::<M>(), any_edge_in::<M>());
        let w: u8 = kani::any();
        kani::assume(w as usize <= M);
        let wi = w as i32;
        let m = M as i32;
        kani::assume(l + wi <= m && t + wi <= m && r - wi >= 0 && b - wi >= 0);
        let v: u8 = kani::any();
        stroke_rect(img.view_mut(), Rect::from_tlbr(t, l, b, r), v, w as u32);
        let (y, x) = any_px::<M, M>();
        if changed(&old, &img, y, x) {
            assert!(in_rect(y, x, t, l, b, r), "stroke_rect changed a pixel outside the rect");
        }
        kani::cover!(changed(&old, &img, y, x), "some pixel is changed");
        kani::cover!(wi > r - l && l < r && t < b, "stroke wider than the rect");
        kani::cover!(r < l, "inverted rect");
    }

    #[kani::proof]
    #[kani::unwind(4)]
    pub fn stroke_rect_in_image_wide_3() {
        stroke_rect_wide::<3>();
    }

    #[kani::proof]
    #[kani::unwind(5)]
    pub fn stroke_rect_in_image_wide_4() {
        stroke_rect_wide::<4>();
    }

    /// Any rect with edges in [-2, 5] (sides <= 5) around a 3 x 3 image, border width <= 2:
    /// no panic, only pixels inside image /\ rect change.
    #[kani::proof]
    #[kani::unwind(7)]
    pub fn stroke_rect_any_rect_3() {
        let (old, mut img) = any_image::<3, 3>();
        let c = || {
            let v: i8 = kani::any();
            kani::assume(v >= -2 && v <= 5);
            v as i32
        };
        let (t, l, b, r) = (c(), c(), c(), c());
        kani::assume(b - t <= 5 && r - l <= 5);
        let w: u8 = kani::any();
        kani::assume(w <= 2);
        let v: u8 = kani::any();
        stroke_rect(img.view_mut(), Rect::from_tlbr(t, l, b, r), v, w as u32);
        let (y, x) = any_px::<3, 3>();
        if changed(&old, &img, y, x) {
            assert!(in_rect(y, x, t, l, b, r), "stroke_rect changed a pixel outside the rect");
        }
        kani::cover!(changed(&old, &img, y, x), "some pixel is changed");
        kani::cover!(
            t < 0 && r > 3 && w == 2 && changed(&old, &img, y, x),
            "rect overhanging the image changes a pixel"
        );
    }

    // ------------------------------------------------------------------ clamp_to_bounds / BreshamPoints

    /// Full i32 domain, loop-free: no panic / overflow for any arguments, and for a non-empty
    /// image (h, w >= 1) the clamped point is a valid pixel coordinate.
    #[kani::proof]
    pub fn clamp_to_bounds_contract() {
        let p = Point::from_yx(kani::any::<i32>(), kani::any::<i32>());
        let h: i32 = kani::any();
        let w: i32 = kani::any();
        let q = clamp_to_bounds(p, h, w);
        if h >= 1 && w >= 1 {
            assert!(0 <= q.y && q.y < h && 0 <= q.x && q.x < w, "clamped point outside the image");
        }
        kani::cover!(h <= 0 && w > 5, "degenerate height");
        kani::cover!(h == i32::MAX && p.y == i32::MAX, "extreme values");
    }

    /// Every point produced by the Bresenham iterator lies in the closed bounding box of the
    /// segment; the iterator terminates within the unwinding bound (max(|dx|,|dy|) + 3 steps).
    #[kani::proof]
    #[kani::unwind(20)]
    pub fn bresham_points_inside_bbox() {
        let c = || {
            let v: i8 = kani::any();
            kani::assume(v >= -8 && v <= 8);
            v as i32
        };
        let p = Point::from_yx(c(), c());
        let q = Point::from_yx(c(), c());
        let mut n = 0u32;
        for pt in BreshamPoints::new(Line::from_endpoints(p, q)) {
            assert!(
                p.y.min(q.y) <= pt.y && pt.y <= p.y.max(q.y) && p.x.min(q.x) <= pt.x && pt.x <= p.x.max(q.x),
                "Bresenham point outside the segment's bounding box"
            );
            n += 1;
        }
        kani::cover!(n >= 16, "longest line");
        kani::cover!(p == q, "empty line");
        kani::cover!(n >= 5 && (p.y - q.y).abs() == 3, "sloped line");
    }

    // ------------------------------------------------------------------ draw_line (width 0 and 1)

    fn any_line() -> (Point, Point) {
        (
            Point::from_yx(any_coord(), any_coord()),
            Point::from_yx(any_coord(), any_coord()),
        )
    }

    /// Thin line, endpoints anywhere in the window: no panic; changed pixels lie inside the
    /// closed box spanned by the endpoints clamped to the image.
    #[kani::proof]
    #[kani::unwind(6)]
    pub fn draw_line_thin_clamped_box() {
        let (old, mut img) = any_image::<H, W>();
        let (p, q) = any_line();
        // The width is passed as a literal: symbolic execution does not prune the wide-line
        // branch (float geometry + polygon fill) on a merely *assumed* width.
        let width: u32 = if kani::any() { 0 } else { 1 };
        let v: u8 = kani::any();
        if width == 0 {
            draw_line(img.view_mut(), Line::from_endpoints(p, q), v, 0);
        } else {
            draw_line(img.view_mut(), Line::from_endpoints(p, q), v, 1);
        }
        let (y, x) = any_px::<H, W>();
        if changed(&old, &img, y, x) {
            assert!(
                in_closed_box(y, x, z_clamp_pt(p), z_clamp_pt(q)),
                "draw_line changed a pixel outside the box of the clamped endpoints"
            );
        }
        kani::cover!(changed(&old, &img, y, x), "some pixel is changed");
        kani::cover!(width == 0, "zero width");
        kani::cover!(p.y < 0 && q.x > W as i32, "endpoints outside the image");
    }

    /// Thin line, endpoints anywhere in the window: changed pixels lie inside the line's own
    /// bounding box (closed box spanned by the *given* endpoints) -- "inside the shape's bounds".
    #[kani::proof]
    #[kani::unwind(6)]
    pub fn draw_line_thin_line_box() {
        let (old, mut img) = any_image::<H, W>();
        let (p, q) = any_line();
        let v: u8 = kani::any();
        draw_line(img.view_mut(), Line::from_endpoints(p, q), v, 1);
        let (y, x) = any_px::<H, W>();
        if changed(&old, &img, y, x) {
            assert!(
                in_closed_box(y, x, p, q),
                "draw_line changed a pixel outside the line's bounding box"
            );
        }
        kani::cover!(changed(&old, &img, y, x), "some pixel is changed");
        kani::cover!(p.y < 0 && q.y < 0, "line wholly above the image");
    }

    /// Images with zero rows or zero columns: draw_line must not panic (nothing to draw on).
    #[kani::proof]
    #[kani::unwind(6)]
    pub fn draw_line_thin_empty_image() {
        let (p, q) = any_line();
        let v: u8 = kani::any();
        let zero_rows: bool = kani::any();
        if zero_rows {
            let (_old, mut img) = any_image::<0, W>();
            draw_line(img.view_mut(), Line::from_endpoints(p, q), v, 1);
        } else {
            let (_old, mut img) = any_image::<H, 0>();
            draw_line(img.view_mut(), Line::from_endpoints(p, q), v, 1);
        }
        kani::cover!(zero_rows, "0 x W image done");
        kani::cover!(!zero_rows, "H x 0 image done");
    }

    // ------------------------------------------------------------------ draw_polygon (thin outline)

    /// Polygon outline with `n` of three symbolic vertices anywhere in the window, stroke width
    /// 0 or 1: no panic; changed pixels lie inside the closed box spanned by the vertices
    /// clamped to the image.
    fn draw_polygon_frame(n: usize) -> bool {
        let (old, mut img) = any_image::<H, W>();
        let pts = [
            Point::from_yx(any_coord(), any_coord()),
            Point::from_yx(any_coord(), any_coord()),
            Point::from_yx(any_coord(), any_coord()),
        ];
        // Literal widths, see draw_line_thin_clamped_box.
        let width: u32 = if kani::any() { 0 } else { 1 };
        let v: u8 = kani::any();
        if width == 0 {
            draw_polygon(img.view_mut(), &pts[..n], v, 0);
        } else {
            draw_polygon(img.view_mut(), &pts[..n], v, 1);
        }
        let (y, x) = any_px::<H, W>();
        if changed(&old, &img, y, x) {
            let (yi, xi) = (y as i32, x as i32);
            let mut ymin = i32::MAX;
            let mut ymax = i32::MIN;
            let mut xmin = i32::MAX;
            let mut xmax = i32::MIN;
            for i in 0..3 {
                if i < n {
                    let c = z_clamp_pt(pts[i]);
                    ymin = ymin.min(c.y);
                    ymax = ymax.max(c.y);
                    xmin = xmin.min(c.x);
                    xmax = xmax.max(c.x);
                }
            }
            assert!(
                ymin <= yi && yi <= ymax && xmin <= xi && xi <= xmax,
                "draw_polygon changed a pixel outside the box of the clamped vertices"
            );
        }
        kani::cover!(width == 0, "zero width");
        changed(&old, &img, y, x)
    }

    /// Degenerate outlines: no vertex, one vertex (a single zero-length edge).
    /// (Vertex counts are literals: a symbolic slice length costs minutes of symbolic execution.)
    #[kani::proof]
    #[kani::unwind(6)]
    pub fn draw_polygon_thin_le1() {
        let ch0 = draw_polygon_frame(0);
        let ch1 = draw_polygon_frame(1);
        kani::cover!(!ch0 && !ch1, "both degenerate outlines done");
    }

    /// Two vertices = two edges, there and back.
    #[kani::proof]
    #[kani::unwind(6)]
    pub fn draw_polygon_thin_2() {
        let ch = draw_polygon_frame(2);
        kani::cover!(ch, "two-vertex outline changes a pixel");
    }

    /// Triangles.
    #[kani::proof]
    #[kani::unwind(6)]
    pub fn draw_polygon_thin_3() {
        let ch = draw_polygon_frame(3);
        kani::cover!(ch, "triangle changes a pixel");
    }

    // ------------------------------------------------------------------ canary

    #[kani::proof]
    pub fn canary() {
        let x: u8 = kani::any();
        assert!(x != 7);
    }
}
