#!/bin/bash
# Offline setup: nothing to build; verify the tools the checks drive are present.
set -e
cd "$(dirname "$0")"
command -v verus >/dev/null
command -v cargo >/dev/null
cargo kani --version >/dev/null 2>&1 || { echo "cargo kani missing"; exit 1; }
mkdir -p evidence replays
echo setup ok
