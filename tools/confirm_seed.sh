#!/bin/bash
# confirm_seed.sh <worktree> <seed-out-dir> <crate> <demo-dest-relative> [extra test crates...]
# Confirms a seeded change: patch applies, crate tests pass with it, demo fails with it and passes without.
WT=$1; SD=$2; CRATE=$3; DEST=$4; shift 4
cd "$WT" || exit 2
git checkout -q -- . && git clean -fdq -e target
echo "== seed $SD"
git apply --check "$SD/patch.diff" || { echo "PATCH-DOES-NOT-APPLY"; exit 1; }
git apply "$SD/patch.diff"
echo "-- existing tests with the change ($CRATE $*)"
for c in $CRATE "$@"; do
  cargo nextest run -p $c --offline 2>&1 | grep -E "Summary|FAIL|error" | head -5
done
mkdir -p "$(dirname "$DEST")"; cp "$SD/demo.rs" "$DEST"
echo "-- demo with the change (expect FAIL)"
cargo test -p $CRATE --offline --test "$(basename "$DEST" .rs)" 2>&1 | grep -E "^test result|panicked|timed out|error" | head -5
git checkout -q -- . 
echo "-- demo without the change (expect ok)"
cargo test -p $CRATE --offline --test "$(basename "$DEST" .rs)" 2>&1 | grep -E "^test result|error" | head -5
rm -f "$DEST"
git clean -fdq -e target
