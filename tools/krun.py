"""Run Kani on an injected scratch workspace and classify each harness."""
import json
import os
import re
import signal
import subprocess
import time

KANI_FLAGS = ["-Z", "function-contracts", "-Z", "stubbing", "-Z", "unstable-options"]


def _rss_watchdog(sid, cap_gb, stop):
    """Kill any cbmc process of our session whose resident set exceeds cap_gb (RLIMIT_AS cannot be
    used: it makes the kani compiler hang). Kani reports the harness as not completed => undecided."""
    page = os.sysconf("SC_PAGE_SIZE")
    while not stop.wait(5.0):
        try:
            for pid in os.listdir("/proc"):
                if not pid.isdigit():
                    continue
                try:
                    with open(f"/proc/{pid}/stat") as f:
                        st = f.read()
                    rp = st.rfind(")")
                    comm = st[st.find("(") + 1:rp]
                    fields = st[rp + 2:].split()
                    if comm != "cbmc" or int(fields[3]) != sid:   # fields[3] = session id
                        continue
                    rss = int(fields[21]) * page
                    if rss > cap_gb * (1 << 30):
                        os.kill(int(pid), signal.SIGKILL)
                except (OSError, ValueError, IndexError):
                    continue
        except OSError:
            pass


def _run_group(cmd, cwd, timeout, env=None, log=None, mem_gb=None):
    """Run in own session; kill the whole session on timeout (cbmc would be orphaned otherwise).
    mem_gb: resident-set cap per cbmc process, enforced by a watchdog thread."""
    import threading
    t0 = time.time()
    p = subprocess.Popen(cmd, cwd=cwd, stdout=subprocess.PIPE, stderr=subprocess.STDOUT, text=True,
                         start_new_session=True, env=env)
    stop = threading.Event()
    if mem_gb:
        threading.Thread(target=_rss_watchdog, args=(p.pid, mem_gb, stop), daemon=True).start()
    try:
        out, _ = p.communicate(timeout=timeout)
        to = False
    except subprocess.TimeoutExpired:
        try:
            os.killpg(p.pid, signal.SIGKILL)
        except ProcessLookupError:
            pass
        out, _ = p.communicate()
        to = True
    stop.set()
    # Kani's own --harness-timeout kills cbmc but not the SMT solver cbmc spawned (z3 for
    # #[kani::solver(z3)] harnesses): reap whatever is left of the session.
    try:
        os.killpg(p.pid, signal.SIGKILL)
    except (ProcessLookupError, PermissionError):
        pass
    if log:
        with open(log, "a") as f:
            f.write("$ " + " ".join(cmd) + "\n" + (out or "") + "\n")
    return p.returncode, out or "", to, time.time() - t0


def kani_env():
    env = dict(os.environ)
    env["CARGO_NET_OFFLINE"] = "true"
    env.pop("RUSTUP_TOOLCHAIN", None)
    return env


def run_harnesses(unit, scratch, harnesses, jobs=8, log=None, extra_flags=()):
    """harnesses: list of dicts from unit.json. Returns {harness name -> record}."""
    out_json = os.path.join(scratch, f"kani-out-{os.getpid()}-{int(time.time()*1000)}.json")
    maxto = max(h.get("timeout", 300) for h in harnesses)
    cmd = ["cargo", "kani", "-p", unit["crate"]] + KANI_FLAGS + list(unit.get("kani_flags", [])) + list(extra_flags)
    if unit.get("features"):
        cmd += ["--features", unit["features"]]
    if unit.get("no_default_features"):
        cmd += ["--no-default-features"]
    for h in harnesses:
        cmd += ["--harness", h["name"]]
    cmd += ["--exact"] if unit.get("exact") else []
    cmd += ["-j", str(jobs), "--output-format", "terse", "--harness-timeout", f"{maxto}s",
            "--export-json", out_json]
    # wall budget: build + all harness timeouts can overlap thanks to -j
    waves = (len(harnesses) + jobs - 1) // jobs
    wall = 600 + maxto * waves + 60
    rc, out, timed_out, dt = _run_group(cmd, scratch, wall, env=kani_env(), log=log,
                                        mem_gb=unit.get("mem_gb", float(os.environ.get("VERIF_MEM_GB", "10"))))
    recs = {}
    for h in harnesses:
        recs[h["name"]] = {"harness": h["name"], "obligation": h["obligation"], "kind": h.get("kind", "complete"),
                           "bound": h.get("bound"), "status": "undecided", "reason": "no result",
                           "checks_total": 0, "checks_failed": [], "time_s": 0.0, "solver_s": 0.0,
                           "covers_satisfied": 0, "covers_total": 0}
    results = None
    if os.path.exists(out_json):
        try:
            results = json.load(open(out_json))
        except Exception:
            results = None
    compile_err = None
    if results is None:
        mm = re.search(r"(error(\[E\d+\])?: .*?)(\n\n|\Z)", out, re.S)
        compile_err = mm.group(1)[:1500] if mm else out[-1500:]
        for r in recs.values():
            r["reason"] = ("wall-clock timeout" if timed_out else "kani produced no results: " + compile_err)
        return recs, {"cmd": " ".join(cmd), "wall_s": dt, "output_tail": out[-3000:], "kani": None}
    stats = {c["harness_id"]: (c.get("cbmc_stats") or {}) for c in results.get("cbmc", [])}
    toolinfo = results.get("tools", {})
    for res in results.get("verification_results", {}).get("results", []):
        hid = res["harness_id"]
        key = None
        for h in harnesses:
            if hid == h["name"] or hid.endswith("::" + h["name"]) or hid.endswith(h["name"]):
                key = h["name"]
        if key is None:
            continue
        r = recs[key]
        checks = res.get("checks", [])
        r["checks_total"] = len(checks)
        r["time_s"] = res.get("duration_ms", 0) / 1000.0
        st = stats.get(hid) or {}
        r["solver_s"] = st.get("runtime_decision_procedure_s", 0.0) or 0.0
        failed = [c for c in checks if c.get("status") == "Failure"]
        undet = [c for c in checks if c.get("status") == "Undetermined"]
        covers = [c for c in checks if c.get("category") == "cover" or c.get("status") in ("Satisfied", "Unsatisfiable")]
        r["covers_total"] = len(covers)
        r["covers_satisfied"] = len([c for c in covers if c.get("status") == "Satisfied"])
        r["checks_failed"] = [{"description": c.get("description"), "category": c.get("category"),
                               "function": c.get("function"),
                               "location": "%s:%s" % (c.get("location", {}).get("file"), c.get("location", {}).get("line")),
                               "status": c.get("status")} for c in failed][:12]
        status = res.get("status")
        if status == "Success" and h_flag(harnesses, key, "covers_must_be_unsat"):
            # "rejection" obligations: the harness is #[kani::should_panic] (the documented panic
            # must exist) and every cover!() marks a point that must NOT be reachable (the call
            # returned although it had to reject): a satisfied cover is the violation.
            if r["covers_satisfied"] > 0:
                r["status"] = "failed"
                sat = [c for c in covers if c.get("status") == "Satisfied"]
                r["reason"] = "reached a point that must be unreachable: " + " | ".join((c.get("description") or "") for c in sat)[:400]
                r["checks_failed"] = [{"description": c.get("description"), "category": "cover", "function": c.get("function"),
                                       "location": "%s:%s" % (c.get("location", {}).get("file"), c.get("location", {}).get("line")),
                                       "status": "Satisfied"} for c in sat][:6]
            else:
                r["status"] = "ok"
                r["reason"] = ""
        elif status == "Success":
            r["status"] = "ok"
            r["reason"] = ""
            # vacuity: a harness with cover!() statements must satisfy all of them
            if r["covers_total"] and r["covers_satisfied"] < r["covers_total"]:
                r["status"] = "undecided"
                r["reason"] = "vacuity guard: cover not satisfied (precondition unreachable)"
        else:
            descs = " | ".join((c.get("description") or "") for c in failed)
            unsupported = [c for c in failed if "unsupported" in (c.get("description") or "").lower()
                           or "not currently supported" in (c.get("description") or "")]
            unwind = [c for c in failed if "unwinding assertion" in (c.get("description") or "")]
            real = [c for c in failed if c not in unsupported and c not in unwind]
            if not checks:
                r["status"] = "undecided"
                r["reason"] = "harness did not complete (timeout / out of memory / CBMC error)"
            elif not failed and undet:
                r["status"] = "undecided"
                r["reason"] = "checks undetermined: " + " | ".join((c.get("description") or "") for c in undet)[:300]
            elif real:
                r["status"] = "failed"
                r["reason"] = descs[:600]
            elif unwind and h_flag(harnesses, key, "unwind_is_violation"):
                r["status"] = "failed"
                r["reason"] = "loop exceeds its termination bound: " + descs[:400]
            elif unwind:
                r["status"] = "undecided"
                r["reason"] = "unwinding bound too small for this code: " + descs[:400]
            elif unsupported:
                r["status"] = "undecided"
                r["reason"] = "unsupported construct reached: " + descs[:400]
            else:
                r["status"] = "undecided"
                r["reason"] = "failure without failed checks (timeout/oom?)"
    # harness that never produced a result entry (e.g. timeout)
    for ed in results.get("error_details", []):
        pass
    info = {"cmd": " ".join(cmd), "wall_s": dt, "output_tail": out[-3000:], "kani": toolinfo}
    return recs, info


def h_flag(harnesses, name, flag):
    for h in harnesses:
        if h["name"] == name:
            return bool(h.get(flag))
    return False


def native_verdict(out, test_name, timed_out=False):
    """Outcome of the native run of one playback test: 'failed' | 'passed' | 'unknown'.
    (`cargo kani playback` also runs doctests, whose build failures must not be read as a verdict.)"""
    if timed_out:
        return "failed"          # non-termination obligations: the real code did not finish
    if re.search(r"test \S*" + re.escape(test_name) + r" \.\.\. FAILED", out):
        return "failed"
    if re.search(r"test \S*" + re.escape(test_name) + r" \.\.\. ok", out):
        return "passed"
    return "unknown"


_PB_TEST_RE = re.compile(r"[ \t]*#\[test\]\s*fn kani_concrete_playback_\w+\(\) \{.*?\n\s*\}\n?", re.S)


def _relocate_playback_tests(path, harness_name):
    """Kani writes the generated #[test] next to the harness fn; for a harness defined inside a
    `macro_rules!` body that text is expanded once per macro invocation (duplicate definitions).
    Move every generated test to the end of the harness module instead (deduplicated)."""
    import rsrc
    s = open(path).read()
    tests = []
    for m in _PB_TEST_RE.finditer(s):
        t = m.group(0).strip()
        if t not in tests:
            tests.append(t)
    s2 = _PB_TEST_RE.sub("", s)
    parts = harness_name.split("::")
    mod = parts[-2] if len(parts) >= 2 else None
    msk = rsrc.mask(s2)
    end = None
    if mod:
        mm = re.search(r"\bmod\s+%s\s*\{" % re.escape(mod), msk)
        if mm:
            end = rsrc.match_brace(msk, mm.end() - 1) - 1
    if end is None:
        end = msk.rstrip().rfind("}")
    s2 = s2[:end] + "\n" + "\n".join("    " + t for t in tests) + "\n" + s2[end:]
    open(path, "w").write(s2)


def playback(unit, scratch, harness, log=None, timeout=600):
    """Re-run one failing harness with concrete playback. Returns dict(test_src, test_name, native_output, reproduced)."""
    cmd = ["cargo", "kani", "-p", unit["crate"]] + KANI_FLAGS + list(unit.get("kani_flags", [])) + \
          ["-Z", "concrete-playback", "--concrete-playback=inplace", "--harness", harness["name"],
           "--output-format", "terse", "--harness-timeout", f"{harness.get('timeout', 300)}s"]
    if unit.get("features"):
        cmd += ["--features", unit["features"]]
    rc, out, to, dt = _run_group(cmd, scratch, timeout, env=kani_env(), log=log)
    res = {"test_src": None, "test_name": None, "native_output": None, "reproduced": False}
    mm = re.search(r"kani_concrete_playback_\w+", out)
    # find generated test in sources
    test_src = None
    test_name = None
    for fe in unit["files"]:
        p = os.path.join(scratch, fe["file"])
        s = open(p).read()
        hfn = harness["name"].split("::")[-1]
        m2 = re.search(r"#\[test\]\s*fn (kani_concrete_playback_" + re.escape(hfn) + r"_\d+)\(\) \{.*?\n\s*\}", s, re.S)
        if m2:
            test_src = m2.group(0)
            test_name = m2.group(1)
            break
    if not test_name:
        res["native_output"] = "no concrete playback test generated\n" + out[-1500:]
        return res
    _relocate_playback_tests(p, harness["name"])
    res["test_src"] = test_src
    res["test_name"] = test_name
    cmd2 = ["cargo", "kani", "playback", "-Z", "concrete-playback", "-p", unit["crate"]]
    if unit.get("features"):
        cmd2 += ["--features", unit["features"]]
    cmd2 += ["--", test_name]
    rc2, out2, to2, dt2 = _run_group(cmd2, scratch, timeout, env=kani_env(), log=log)
    res["native_output"] = out2[-4000:]
    res["reproduced"] = native_verdict(out2, test_name, to2) == "failed"
    if to2:
        res["native_output"] += "\n[native replay did not terminate within %ds]" % timeout
    return res
