#!/bin/bash
# run_all.sh [quick|thorough]: run every claimed property's check sequentially against /repo; summary on stdout
TIER=${1:-quick}
cd "$(dirname "$0")/.."
for p in $(python3 -c "
import json
print(' '.join(c['property_id'] for c in json.load(open('MANIFEST.json'))['checks']))"); do
  s=$(date +%s)
  ./check $p --tier $TIER > /var/tmp/all-$TIER-$p.log 2>&1
  rc=$?
  e=$(date +%s)
  echo "$p exit=$rc wall=$((e-s))s $(grep -E '^OK|^VIOLATION|^KNOWN' /var/tmp/all-$TIER-$p.log | head -3 | tr '\n' ' ' | cut -c1-160)"
done
