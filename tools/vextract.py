"""Build a single-file Verus input from a template in /verif/contracts/verus and
function/type text extracted *verbatim* from the repository working tree.

Template directives (everything else in the template is copied through and is
the trusted/prelude + lemma part, owned by /verif):

  //@extract kind=fn file=<repo-rel path> [within="<impl header regex>"] name=<ident> [nth=N]
  //@| requires ...            <- overlay clause lines for the fn signature (inserted
  //@| ensures  ...               between the return type and the body's '{')
  //@loop 0                    <- following //@| lines go in front of the body of the
  //@| invariant ...              0-th loop (textual order: while/loop/for) of the fn
  //@extract kind=struct|enum|const|type file=... name=...

Mechanical edits applied to extracted text (nothing else; all recorded in meta):
  * doc comments and attributes in front of the item are dropped (`keep_attrs=1` keeps attributes)
  * `pub` / `pub(crate)` in front of `fn` is dropped
  * `-> T {` becomes `-> (r: T) <overlay> {`   (binder name via ret=<name>)
  * loop overlay clauses are inserted between a loop header and its `{`
A clause line may end with `// @ob:<name>` to name the obligation it states.
"""
import hashlib
import re
import shlex
import os

from rsrc import mask, find_item, find_loops, find_closures, AnchorError


class TemplateError(Exception):
    pass


def _parse_kv(s):
    d = {}
    for tok in shlex.split(s):
        if "=" not in tok:
            raise TemplateError(f"bad directive token {tok!r}")
        k, v = tok.split("=", 1)
        d[k] = v
    return d


def _strip_front(item_text_from_start, src, item):
    """Return (kept_attrs_text, dropped list) for the region [item.start, item.sig_start)."""
    front = src[item.start:item.sig_start]
    dropped = []
    kept = []
    for line in front.splitlines():
        s = line.strip()
        if not s:
            continue
        if s.startswith("///") or s.startswith("//"):
            dropped.append("doc-comment")
        else:
            dropped.append("attr:" + s)
            kept.append(line)
    return "\n".join(kept), dropped


def _split_sig(src, m, item):
    """For a fn item: return (prefix_without_vis, params..ret text, ret_type or None, where_clause)"""
    sig = src[item.sig_start:item.body_open]
    msig = m[item.sig_start:item.body_open]
    edits = []
    # drop visibility
    mm = re.match(r'\s*pub(\s*\([^)]*\))?\s+', msig)
    if mm:
        edits.append("dropped-visibility:" + " ".join(sig[:mm.end()].split()))
        sig = sig[mm.end():]
        msig = msig[mm.end():]
    # find '->' at paren depth 0
    d = 0
    arrow = None
    k = 0
    while k < len(msig):
        ch = msig[k]
        if ch in "([<" and not (ch == "<" and msig[k - 1:k] == "-"):
            d += 1
        elif ch in ")]" or (ch == ">" and msig[k - 1:k] != "-" and msig[k-1:k] != "="):
            d -= 1
        elif msig.startswith("->", k) and d == 0:
            arrow = k
            break
        k += 1
    where = ""
    if arrow is None:
        head = sig.rstrip()
        wm = re.search(r'\bwhere\b', msig)
        if wm:
            head, where = sig[:wm.start()].rstrip(), sig[wm.start():].rstrip()
        return head, None, where, edits
    head = sig[:arrow].rstrip()
    rest = sig[arrow + 2:]
    mrest = msig[arrow + 2:]
    wm = re.search(r'\bwhere\b', mrest)
    if wm:
        ret, where = rest[:wm.start()].strip(), rest[wm.start():].rstrip()
    else:
        ret = rest.strip()
    return head, ret, where, edits


class Extracted:
    def __init__(self):
        self.text = ""
        self.functions = []   # dicts: name, file, src_lines, sha256, edits, gen_lines
        self.types = []
        self.ob_tags = {}     # gen line number -> obligation tag


def build(template_path, repo_root, subst=None):
    ttext = open(template_path).read()
    # `//@include <path relative to /verif>`: textual inclusion of shared spec/lemma files
    verif_root = os.path.dirname(os.path.dirname(os.path.abspath(__file__)))
    def _inc(mm):
        return open(os.path.join(verif_root, mm.group(1).strip())).read()
    ttext = re.sub(r"^//@include[ \t]+(\S+)[ \t]*$", _inc, ttext, flags=re.M)
    # unit-level template parameters: literal token replacement (e.g. one template verified under
    # several spec configurations)
    for k, v in (subst or {}).items():
        ttext = ttext.replace(k, v)
    tmpl = ttext.splitlines()
    out_lines = []
    meta_fns = []
    meta_types = []
    cache = {}
    i = 0

    def load(rel):
        if rel not in cache:
            p = os.path.join(repo_root, rel)
            if not os.path.exists(p):
                raise AnchorError(f"anchored file {rel} missing")
            s = open(p).read()
            cache[rel] = (s, mask(s))
        return cache[rel]

    while i < len(tmpl):
        line = tmpl[i]
        st = line.strip()
        if not st.startswith("//@extract"):
            out_lines.append(line)
            i += 1
            continue
        d = _parse_kv(st[len("//@extract"):])
        i += 1
        sections = {"spec": []}
        closure_sigs = {}
        cur = "spec"
        while i < len(tmpl) and tmpl[i].strip().startswith("//@") and not tmpl[i].strip().startswith("//@extract"):
            s = tmpl[i].strip()
            if s.startswith("//@|"):
                sections[cur].append(s[4:].rstrip() if not s[4:].startswith(" ") else s[5:].rstrip())
            elif s.startswith("//@loop"):
                cur = "loop " + s[len("//@loop"):].strip()
                sections[cur] = []
            elif s.startswith("//@closure"):
                # //@closure <n> <typed params> -> <binder>: <type>
                rest = s[len("//@closure"):].strip()
                n, sigtxt = rest.split(None, 1)
                cur = "closure " + n
                sections[cur] = []
                closure_sigs[int(n)] = sigtxt
            elif s.startswith("//@end"):
                i += 1
                break
            else:
                raise TemplateError(f"unknown directive line: {s}")
            i += 1
        src, m = load(d["file"])
        kind = d["kind"]
        item = find_item(src, kind, d["name"], within=d.get("within"), nth=int(d.get("nth", 0)), m=m)
        sha = hashlib.sha256(src[item.sig_start:item.end].encode()).hexdigest()
        kept_attrs, dropped = _strip_front(None, src, item)
        indent = re.match(r'\s*', line).group(0)
        gen_start = len(out_lines) + 1
        if kind == "fn":
            if item.body_open is None:
                raise AnchorError(f"fn {d['name']} has no body")
            head, ret, where, edits = _split_sig(src, m, item)
            edits = dropped + edits
            binder = d.get("ret", "r")
            # `assoc=Item:Range<usize>`: a trait method checked inside an inherent impl (trait impls
            # cannot carry `requires`) has no `Self::Item`; the associated type is spelled out in
            # the SIGNATURE only (the body is untouched). Reported in `edits`.
            if d.get("assoc"):
                an, at = d["assoc"].split(":", 1)
                if ret is not None and ("Self::" + an) in ret:
                    ret = ret.replace("Self::" + an, at)
                    edits.append(f"assoc-type-in-signature:Self::{an}={at}")
                if ("Self::" + an) in head:
                    head = head.replace("Self::" + an, at)
            sig = head
            if ret is not None:
                sig += f" -> ({binder}: {ret})"
                edits.append(f"return-binder:({binder}: {ret})")
            if where:
                sig += "\n" + indent + where
            if d.get("keep_attrs") and kept_attrs:
                out_lines.extend(kept_attrs.splitlines())
            if d.get("pre"):
                out_lines.append(indent + d["pre"])
            if d.get("vis"):
                sig = d["vis"] + " " + sig.lstrip()
                edits.append("visibility:" + d["vis"])
            out_lines.extend((indent + sig.lstrip()).splitlines())
            for cl in sections["spec"]:
                out_lines.append(indent + "    " + cl)
            # body with loop overlays
            body = src[item.body_open:item.end]
            loops = find_loops(m, item.body_open, item.end)
            inserts = []
            for key, clauses in sections.items():
                if not key.startswith("loop "):
                    continue
                n = int(key.split()[1])
                if n >= len(loops):
                    raise AnchorError(f"fn {d['name']}: loop #{n} not found (has {len(loops)})")
                inserts.append((loops[n][1] - item.body_open, clauses))
                edits.append(f"loop-overlay:{n}")
            edits_at = [(pos, pos, "\n" + "\n".join(indent + "        " + c for c in clauses) + "\n" + indent + "    ")
                        for pos, clauses in inserts]
            if closure_sigs:
                closures = find_closures(m, item.body_open, item.end)
                for n, sigtxt in closure_sigs.items():
                    if n >= len(closures):
                        raise AnchorError(f"fn {d['name']}: closure #{n} not found (has {len(closures)})")
                    (c_start, c_bar_end, c_body_end) = closures[n]
                    params, ret = sigtxt.split("->")
                    binder, rty = ret.split(":", 1)
                    clauses = sections["closure %d" % n]
                    head = "|" + params.strip() + "| -> (" + binder.strip() + ": " + rty.strip() + ")\n" + \
                        "\n".join(indent + "            " + c for c in clauses) + "\n" + indent + "        { "
                    # replace `|x|` by typed header, wrap body expression in braces
                    edits_at.append((c_start - item.body_open, c_bar_end - item.body_open, head))
                    edits_at.append((c_body_end - item.body_open, c_body_end - item.body_open, " }"))
                    edits.append(f"closure-overlay:{n} (typed params, return binder, clauses; body expression verbatim, wrapped in braces)")
            edits_at.sort(key=lambda t: (t[0], t[1]), reverse=True)
            for a, b, text in edits_at:
                body = body[:a] + text + body[b:]
            body_gen_start = len(out_lines) + 1
            out_lines.extend(body.splitlines())
            meta_fns.append({
                "name": (d.get("within", "") + "::" if d.get("within") else "") + d["name"],
                "fn": d["name"],
                "file": d["file"],
                "src_lines": list(item.lines),
                "sha256": sha,
                "edits": edits,
                "gen_lines": [gen_start, len(out_lines)],
                "body_gen_start": body_gen_start,
                "body_src_start": src.count("\n", 0, item.body_open) + 1,
                "has_loop_overlay": bool(inserts),
            })
        else:
            text = src[item.sig_start:item.end]
            if d.get("keep_attrs") and kept_attrs:
                out_lines.extend(kept_attrs.splitlines())
            if d.get("pre"):
                out_lines.append(indent + d["pre"])
            # drop doc comments inside (harmless to keep; keep verbatim)
            out_lines.extend((indent + text).splitlines())
            meta_types.append({
                "name": d["name"], "kind": kind, "file": d["file"],
                "src_lines": list(item.lines), "sha256": sha,
                "edits": dropped, "gen_lines": [gen_start, len(out_lines)],
            })
    ex = Extracted()
    ex.text = "\n".join(out_lines) + "\n"
    ex.functions = meta_fns
    ex.types = meta_types
    for n, l in enumerate(out_lines, 1):
        mm = re.search(r'//\s*@ob:([\w.:\-]+)', l)
        if mm:
            ex.ob_tags[n] = mm.group(1)
    return ex
