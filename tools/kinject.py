"""Copy the workspace to a scratch directory and inject Kani contracts + harness modules.

Unit description (contracts/kani/<unit>/unit.json):
{
  "crate": "rten-onnx",                       # cargo package to verify (-p)
  "features": "...",                          # optional cargo features
  "files": [
    {"file": "rten-onnx/src/protobuf/varint.rs",
     "contracts": [ {"kind":"fn","name":"read_varint","within":null,
                     "attrs":["kani::requires(..)", "kani::ensures(|r| ..)"]} ],
     "append": "harness_varint.rs",           # text appended verbatim at the end of the file
     "prepend_crate_attrs": ["feature(...)"]  # only for lib.rs style roots (optional)
    } ],
  "harnesses": [...]
}
The repository text itself is never rewritten: attributes are inserted on their own lines in
front of the anchored fn, and the harness module is appended after the last line.
"""
import json
import os
import shutil
import subprocess

from rsrc import mask, find_item, AnchorError


def copy_workspace(repo, dest):
    os.makedirs(dest, exist_ok=True)
    subprocess.run(["rsync", "-a", "--delete",
                    "--exclude", "/target", "--exclude", ".git", "--exclude", "node_modules",
                    "--exclude", "/js-examples", "--exclude", "/pytorch-ref-tests",
                    "--exclude", "/rten-convert", "--exclude", "*.rten",
                    repo.rstrip("/") + "/", dest.rstrip("/") + "/"], check=True)
    cfg = os.path.join(dest, ".cargo")
    os.makedirs(cfg, exist_ok=True)
    with open(os.path.join(cfg, "config.toml"), "a") as f:
        f.write("\n[net]\noffline = true\n")


def inject(unit_dir, dest):
    """Returns (unit dict, meta list of injected functions)."""
    unit = json.load(open(os.path.join(unit_dir, "unit.json")))
    meta = []
    for fe in unit["files"]:
        path = os.path.join(dest, fe["file"])
        if not os.path.exists(path):
            raise AnchorError(f"anchored file {fe['file']} missing")
        src = open(path).read()
        m = mask(src)
        inserts = []
        for c in fe.get("contracts", []):
            item = find_item(src, c.get("kind", "fn"), c["name"], within=c.get("within"), nth=c.get("nth", 0), m=m)
            # insert directly in front of the signature (after docs/attrs)
            line_start = src.rfind("\n", 0, item.sig_start) + 1
            indent = src[line_start:item.sig_start]
            if indent.strip():
                raise AnchorError(f"fn {c['name']} does not start on its own line")
            text = "".join(f"{indent}#[cfg_attr(kani, {a})]\n" for a in c["attrs"])
            inserts.append((line_start, text))
            import hashlib
            meta.append({"fn": (c.get("within") or "") + "::" + c["name"], "file": fe["file"],
                         "src_lines": list(item.lines),
                         "sha256": hashlib.sha256(src[item.sig_start:item.end].encode()).hexdigest(),
                         "attrs": c["attrs"]})
        for a in fe.get("anchors", []):
            # functions the harness calls: must exist (lost anchor => undecided), hashed for evidence
            item = find_item(src, a.get("kind", "fn"), a["name"], within=a.get("within"), nth=a.get("nth", 0), m=m)
            import hashlib
            meta.append({"fn": (a.get("within") or "") + "::" + a["name"], "file": fe["file"],
                         "src_lines": list(item.lines),
                         "sha256": hashlib.sha256(src[item.sig_start:item.end].encode()).hexdigest(),
                         "attrs": []})
        for pos, text in sorted(inserts, reverse=True):
            src = src[:pos] + text + src[pos:]
        if fe.get("prepend"):
            src = open(os.path.join(unit_dir, fe["prepend"])).read() + src
        if fe.get("append"):
            src = src.rstrip("\n") + "\n\n" + open(os.path.join(unit_dir, fe["append"])).read()
        with open(path, "w") as f:
            f.write(src)
    return unit, meta
