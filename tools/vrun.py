"""Run Verus on a generated unit file and classify the outcome per obligation."""
import json
import os
import re
import subprocess
import time

import vextract
from rsrc import AnchorError

VERUS = os.environ.get("VERIF_VERUS", "verus")

# Verus diagnostics that are verification-condition failures (proof obligations that did
# not discharge) as opposed to front-end errors (unsupported construct, type error ...).
VC_FAIL = [
    "postcondition not satisfied",
    "precondition not satisfied",
    "possible arithmetic underflow/overflow",
    "possible division by zero",
    "assertion failed",
    "invariant not satisfied",
    "loop invariant not",
    "decreases not satisfied",
    "could not prove termination",
    "possible bit shift underflow/overflow",
    "recommendation not met",
    "unreachable",
    "cannot prove",
    "possible out-of-bounds",
    "possible truncation",
    "failed to match",
    "could not show",
    "not satisfied",
    "possible negative",
]
RLIMIT = ["Resource limit", "rlimit", "timed out"]


class VerusResult:
    def __init__(self):
        self.status = "undecided"     # ok | failed | undecided
        self.reason = ""
        self.functions = {}           # verus fn path -> {success, time_ms, rlimit, mode}
        self.failures = []            # dicts {function, obligation, message, src, rendered}
        self.fe_errors = []           # front-end errors (rendered)
        self.canary_failed = None
        self.verified = 0
        self.errors = 0
        self.smt_ms = 0
        self.total_ms = 0
        self.version = ""
        self.cmd = ""
        self.extracted = None
        self.gen_path = ""
        self.raw_stderr = ""


CANARY = """
verus! {
mod verif_canary_mod {
    #[allow(unused_imports)]
    use super::*;
    // must FAIL: if `false` is provable here the trusted prelude is inconsistent
    proof fn verif_canary() ensures false {}
}
}
"""


def run_unit(unit, repo, scratch, rlimit=None, extra_args=()):
    """unit: dict(name, template, ...). Returns VerusResult."""
    res = VerusResult()
    tpath = unit["template"]
    try:
        ex = vextract.build(tpath, repo, subst=unit.get("subst"))
    except AnchorError as e:
        res.reason = f"lost anchor: {e}"
        return res
    res.extracted = ex
    text = ex.text
    # canary goes right before the final `fn main`
    text = text.replace("\nfn main() {}", CANARY + "\nfn main() {}")
    gen = os.path.join(scratch, unit["name"].replace("-", "_") + ".rs")
    with open(gen, "w") as f:
        f.write(text)
    res.gen_path = gen
    cmd = [VERUS, gen, "--output-json", "--time", "--triggers-mode", "silent", "--error-format=json",
           "--multiple-errors", "10"]
    if rlimit:
        cmd += ["--rlimit", str(rlimit)]
    cmd += list(extra_args)
    res.cmd = " ".join(cmd)
    t0 = time.time()
    # own session, so that on a wall-clock timeout the z3 child is killed together with verus
    import signal
    from types import SimpleNamespace
    pr = subprocess.Popen(cmd, stdout=subprocess.PIPE, stderr=subprocess.PIPE, text=True, cwd=scratch,
                          start_new_session=True)
    try:
        so, se = pr.communicate(timeout=unit.get("timeout", 600))
    except subprocess.TimeoutExpired:
        try:
            os.killpg(pr.pid, signal.SIGKILL)
        except ProcessLookupError:
            pass
        pr.communicate()
        res.reason = "verus wall-clock timeout"
        return res
    p = SimpleNamespace(stdout=so, stderr=se, returncode=pr.returncode)
    res.total_ms = int((time.time() - t0) * 1000)
    res.raw_stderr = p.stderr
    try:
        js = json.loads(p.stdout[p.stdout.index("{"):])
    except Exception:
        res.reason = "verus produced no JSON: " + p.stderr[-2000:]
        return res
    vr = js.get("verification-results", {})
    res.verified = vr.get("verified", 0)
    res.errors = vr.get("errors", 0)
    res.version = js.get("verus", {}).get("version", "")
    try:
        smt = js["times-ms"]["smt"]
        res.smt_ms = smt.get("total", 0)
        for mod in smt.get("smt-run-module-times", []):
            for fb in mod.get("function-breakdown", []):
                res.functions[fb["function"]] = {
                    "success": fb["success"], "time_us": fb.get("time-micros", 0),
                    "rlimit": fb.get("rlimit", 0), "mode": fb.get("mode:", "")}
    except KeyError:
        pass
    # diagnostics
    diags = []
    for line in p.stderr.splitlines():
        line = line.strip()
        if line.startswith("{") and '"$message_type"' in line:
            try:
                diags.append(json.loads(line))
            except Exception:
                pass
    fn_by_line = []
    for f in ex.functions:
        fn_by_line.append((f["gen_lines"][0], f["gen_lines"][1], f))
    for dgn in diags:
        if dgn.get("level") != "error":
            continue
        msg = dgn.get("message", "")
        if msg.startswith("aborting due to"):
            continue
        prim = [s for s in dgn.get("spans", []) if s.get("is_primary")]
        allspans = dgn.get("spans", [])
        line = prim[0]["line_start"] if prim else 0
        is_vc = any(k in msg for k in VC_FAIL)
        is_rl = any(k in msg for k in RLIMIT)
        # which function (generated) does it belong to: any span inside an extracted fn
        owner = None
        for s in allspans:
            for (a, b, f) in fn_by_line:
                if a <= s["line_start"] <= b:
                    owner = f
                    break
            if owner:
                break
        tag = None
        for s in allspans:
            for ln in range(s["line_start"], s["line_end"] + 1):
                if ln in ex.ob_tags:
                    tag = ex.ob_tags[ln]
        srcref = None
        if owner:
            for s in allspans:
                if s["line_start"] >= owner["body_gen_start"] and s["line_start"] <= owner["gen_lines"][1]:
                    # approximate mapping back to the repo line (exact when no loop overlay precedes)
                    srcref = f'{owner["file"]}:{owner["body_src_start"] + (s["line_start"] - owner["body_gen_start"])}'
                    break
        canary = any("verif_canary" in (t.get("text", "")) for s in allspans for t in s.get("text", [])) or \
            "verif_canary" in dgn.get("rendered", "")
        if canary:
            res.canary_failed = True
            continue
        rec = {"function": owner["name"] if owner else None, "fn": owner["fn"] if owner else None,
               "tag": tag, "message": msg, "line": line, "src": srcref,
               "rendered": dgn.get("rendered", "")}
        if is_rl:
            rec["kind"] = "rlimit"
            res.fe_errors.append(rec)
        elif is_vc:
            rec["kind"] = "vc"
            res.failures.append(rec)
        else:
            rec["kind"] = "frontend"
            res.fe_errors.append(rec)
    if res.canary_failed is None:
        # canary must have failed; look at function-breakdown
        for k, v in res.functions.items():
            if k.endswith("verif_canary"):
                res.canary_failed = not v["success"]
    if res.fe_errors:
        res.status = "undecided"
        res.reason = "verus front-end/rlimit error: " + res.fe_errors[0]["message"]
    elif not res.functions:
        res.status = "undecided"
        res.reason = "no function results from verus (vacuous run?)"
    elif res.canary_failed is not True:
        res.status = "undecided"
        res.reason = "canary (`ensures false`) did not fail: trusted prelude inconsistent or pipeline broken"
    elif res.failures:
        res.status = "failed"
    else:
        res.status = "ok"
    return res
