#!/usr/bin/env python3
"""Regenerate /verif/MANIFEST.json from contracts/units.d/*.json, contracts/manifest_text.json and
contracts/not_applicable.json. A property is claimed iff some fragment lists it AND manifest_text has its entry."""
import json, os, sys
HERE = os.path.dirname(os.path.abspath(__file__)); VERIF = os.path.dirname(HERE)
sys.path.insert(0, HERE)
import check
cfg = check.CONFIG
props = [json.loads(l) for l in open(os.path.join(VERIF, "properties.jsonl"))]
na = json.load(open(os.path.join(VERIF, "contracts", "not_applicable.json")))
text = json.load(open(os.path.join(VERIF, "contracts", "manifest_text.json")))
checks = []
claimed = set()
for p in props:
    pid = p["id"]
    if pid in cfg["properties"] and pid in text and cfg["properties"][pid].get("level"):
        pc = cfg["properties"][pid]
        t = text[pid]
        claimed.add(pid)
        backends = sorted(set(cfg["units"][u["unit"]]["backend"] for u in pc["units"]))
        checks.append({
            "property_id": pid,
            "quick_cmd": f"./check {pid} --tier quick",
            "thorough_cmd": f"./check {pid} --tier thorough",
            "evidence_file": f"/verif/evidence/{pid}.json",
            "replay_cmd_template": "./check --replay {path}",
            "engine": "+".join(backends),
            "level_claimed": {"category": pc["level"], "text": t["level_text"], "design_ref": t.get("design_ref", "DESIGN.md section 5")},
            "level_note": t["level_note"],
            "technique": t["technique"],
        })
nal = []
for p in props:
    if p["id"] not in claimed:
        nal.append({"property_id": p["id"], "reason": na.get(p["id"], text.get(p["id"], {}).get("na_reason", "not decided by contract-based verification here; see DESIGN.md section 6"))})
m = {
    "version": 1,
    "setup_cmd": "./setup.sh",
    "hooks": {"guard": "kani", "enable": "none in /repo: contracts are injected into a scratch copy of the working tree at check time (cfg(kani) is set by cargo-kani only there); Verus units extract function text from /repo on every run",
              "baseline_off_cmd": "cd /repo && cargo nextest run --workspace --no-fail-fast --offline",
              "source_commits": [], "add_only": True},
    "engines": [
        {"name": "verus-extract", "path": "tools/vextract.py + tools/vrun.py", "serves_properties": sorted(pid for pid in claimed if any(cfg["units"][u["unit"]]["backend"] == "verus" for u in cfg["properties"][pid]["units"])),
         "kind_free_text": "Verus 0.2026.09.13 on function text extracted verbatim from /repo (unbounded deductive proofs, Z3)"},
        {"name": "kani-inject", "path": "tools/kinject.py + tools/krun.py", "serves_properties": sorted(pid for pid in claimed if any(cfg["units"][u["unit"]]["backend"] == "kani" for u in cfg["properties"][pid]["units"])),
         "kind_free_text": "Kani 0.68 / CBMC 6.11 function contracts and contract harnesses injected into a scratch copy of the workspace"},
        {"name": "native-enumeration", "path": "tools/check.py (run_native_unit) + contracts/native/*.rs", "serves_properties": sorted(pid for pid in claimed if any(cfg["units"][u["unit"]]["backend"] == "native" for u in cfg["properties"][pid]["units"])),
         "kind_free_text": "bounded stand-in for code neither verifier can execute: exhaustive enumeration of a stated finite domain through the real public API in a scratch copy (release build; one unit under Miri in the thorough tier); labelled bounded, never counted as proved"}],
    "checks": checks,
    "not_applicable": nal,
    "notes": "Exit codes of ./check: 0 pass, 1 VIOLATION, 2 undecided (tool limit / lost anchor / vacuity guard). Known findings: KNOWN_FINDINGS.txt. Formats: contracts/README.md.",
}
json.dump(m, open(os.path.join(VERIF, "MANIFEST.json"), "w"), indent=1)
print("claimed:", sorted(claimed))
