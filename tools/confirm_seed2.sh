#!/bin/bash
# confirm_seed2.sh <worktree> <seed-out-dir> <crate>
# For seeds whose demo is a `#[cfg(test)] mod demo_tests` block to be APPENDED to a source file
# (meta.json: demo_destination names the file, demo_cmd the command).
WT=$1; SD=$2; CRATE=$3
cd "$WT" || exit 2
git checkout -q -- . && git clean -fdq -e target
echo "== seed $SD"
DEST=$(python3 -c "
import json,re,sys
m=json.load(open('$SD/meta.json'))
mm=re.search(r'((?:rten[-\w]*/)?src/[\w/]+\.rs)', m['demo_destination'])
print(mm.group(1))")
CMD=$(python3 -c "
import json
print(json.load(open('$SD/meta.json'))['demo_cmd'])")
git apply --check "$SD/patch.diff" || { echo "PATCH-DOES-NOT-APPLY"; exit 1; }
git apply "$SD/patch.diff"
echo "-- existing tests with the change ($CRATE)"
cargo nextest run -p $CRATE --offline 2>&1 | grep -E "Summary|FAIL|error" | head -5
cat "$SD/demo.rs" >> "$DEST"
echo "-- demo with the change (expect FAIL): $CMD"
bash -c "$CMD" 2>&1 | grep -E "^test result|Summary|panicked|FAIL|error" | head -6
git apply -R "$SD/patch.diff"
echo "-- demo without the change (expect ok)"
bash -c "$CMD" 2>&1 | grep -E "^test result|Summary|FAIL|error" | head -5
git checkout -q -- . ; git clean -fdq -e target
