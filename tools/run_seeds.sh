#!/bin/bash
# run_seeds.sh <prop> <seed-out-base> <n...>   -- applies each seed to a clean HEAD worktree and runs the check
PROP=$1; BASE=$2; shift 2
WT=/var/tmp/rten-seedrun-$PROP
[ -d $WT ] || git -C /repo worktree add -q $WT HEAD
for n in "$@"; do
  ( cd $WT && git checkout -q -- . && git clean -fdq && git apply $BASE/$n/patch.diff )
  echo "== $PROP seed $n"
  VERIF_REPO=$WT /verif/check $PROP 2>&1 | grep -E "VIOLATION|KNOWN|OK |UNDECIDED|FAILED" | cut -c1-400
  echo "exit=${PIPESTATUS[0]}"
done
( cd $WT && git checkout -q -- . && git clean -fdq )
