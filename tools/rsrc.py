"""Lexer-level Rust item locator.

Works on a *masked* copy of the source in which the contents of comments,
string/char literals are replaced by spaces (same length), so that brace
matching and regex search never see braces or keywords inside them.  All spans
are byte offsets into the original text, which is what gets copied verbatim.
"""
import re


class AnchorError(Exception):
    """An anchored item could not be located (=> undecided, never a violation)."""


def mask(src: str) -> str:
    out = list(src)
    n = len(src)
    i = 0

    def blank(a, b):
        for k in range(a, b):
            if out[k] != "\n":
                out[k] = " "

    while i < n:
        c = src[i]
        if c == "/" and i + 1 < n and src[i + 1] == "/":
            j = src.find("\n", i)
            if j < 0:
                j = n
            blank(i, j)
            i = j
        elif c == "/" and i + 1 < n and src[i + 1] == "*":
            depth = 1
            j = i + 2
            while j < n and depth:
                if src.startswith("/*", j):
                    depth += 1
                    j += 2
                elif src.startswith("*/", j):
                    depth -= 1
                    j += 2
                else:
                    j += 1
            blank(i, j)
            i = j
        elif c == '"' or (c in "br" and re.match(r'(b?r#*"|b")', src[i:i + 8]) and (i == 0 or not (src[i - 1].isalnum() or src[i - 1] == "_"))):
            m = re.match(r'(b?)(r(#*))?"', src[i:])
            if m.group(2) is not None:
                hashes = m.group(3)
                start = i + m.end()
                term = '"' + hashes
                j = src.find(term, start)
                j = n if j < 0 else j
                blank(start, j)
                i = j + len(term)
            else:
                start = i + m.end()
                j = start
                while j < n and src[j] != '"':
                    j += 2 if src[j] == "\\" else 1
                blank(start, j)
                i = j + 1
        elif c == "'":
            # char literal or lifetime
            if i + 1 < n and src[i + 1] == "\\":
                j = src.find("'", i + 2)
                # '\'' case
                if src[i + 2] == "'":
                    j = i + 3
                blank(i + 1, j)
                i = j + 1
            elif i + 2 < n and src[i + 2] == "'":
                blank(i + 1, i + 2)
                i += 3
            else:
                # multi-byte char literal e.g. 'é' is one python char; handled above. lifetime:
                i += 1
        elif c == "b" and i + 1 < n and src[i + 1] == "'" and (i == 0 or not (src[i - 1].isalnum() or src[i - 1] == "_")):
            i += 1
        else:
            i += 1
    return "".join(out)


def match_brace(m: str, open_pos: int) -> int:
    """Return index just past the brace matching m[open_pos] == '{'."""
    assert m[open_pos] == "{", (open_pos, m[open_pos:open_pos + 20])
    depth = 0
    for k in range(open_pos, len(m)):
        ch = m[k]
        if ch == "{":
            depth += 1
        elif ch == "}":
            depth -= 1
            if depth == 0:
                return k + 1
    raise AnchorError("unbalanced braces")


def _depth_at(m: str, start: int, pos: int) -> int:
    d = 0
    for k in range(start, pos):
        if m[k] == "{":
            d += 1
        elif m[k] == "}":
            d -= 1
    return d


def _item_start(src: str, m: str, kw_pos: int) -> int:
    """Walk backwards from a keyword over qualifiers, attributes and doc comments."""
    # qualifiers on the same logical item
    pos = kw_pos
    while True:
        pre = m[:pos].rstrip()
        mm = re.search(r'(pub(\s*\([^)]*\))?|const|unsafe|async|default|extern(\s*"\s*[A-Za-z ]*")?)$', pre)
        # extern "C": mask blanks the string contents, keeps quotes
        if mm and (mm.start() == 0 or not (pre[mm.start() - 1].isalnum() or pre[mm.start() - 1] == "_")):
            pos = mm.start()
        else:
            break
    # attributes / doc comments: walk lines upward
    line_start = src.rfind("\n", 0, pos) + 1
    if src[line_start:pos].strip():
        return pos  # item does not start its line (e.g. inside macro); no attrs
    start = line_start
    while start > 0:
        prev_end = start - 1
        prev_start = src.rfind("\n", 0, prev_end) + 1
        line = src[prev_start:prev_end].strip()
        if line.startswith("///") or line.startswith("#[") or line.startswith("//!"):
            start = prev_start
        elif line.endswith("]") and "#[" not in line and line:
            # possible tail of a multi-line attribute: search upward for its '#['
            k = prev_start
            found = None
            for _ in range(12):
                if src[k:].lstrip().startswith("#["):
                    found = k
                    break
                if k == 0:
                    break
                k = src.rfind("\n", 0, k - 1) + 1
            if found is None:
                break
            start = found
        else:
            break
    return start


class Item:
    def __init__(self, src, start, sig_start, body_open, end, kind, name):
        self.src = src
        self.start = start          # incl. attrs/docs
        self.sig_start = sig_start  # first qualifier / keyword
        self.body_open = body_open  # index of '{' (or None)
        self.end = end
        self.kind = kind
        self.name = name

    @property
    def text(self):
        return self.src[self.start:self.end]

    @property
    def lines(self):
        return (self.src.count("\n", 0, self.start) + 1, self.src.count("\n", 0, self.end) + 1)


def find_blocks(src: str, m: str, header_re: str):
    """Yield (hdr_start, open_brace, end) for blocks (impl/mod/trait) whose header matches."""
    res = []
    for mm in re.finditer(r'\b(impl|mod|trait)\b[^{};]*\{', m):
        hdr = " ".join(src[mm.start():mm.end() - 1].split())
        if re.fullmatch(header_re, hdr) or re.search("^" + header_re + "$", hdr):
            res.append((mm.start(), mm.end() - 1, match_brace(m, mm.end() - 1)))
    return res


def _fn_body_open(m: str, after: int):
    """First '{' or ';' at paren/bracket depth 0 after position."""
    d = 0
    k = after
    while k < len(m):
        ch = m[k]
        if ch in "([":
            d += 1
        elif ch in ")]":
            d -= 1
        elif ch == "{" and d == 0:
            return k
        elif ch == ";" and d == 0:
            return None
        k += 1
    raise AnchorError("no fn body")


def find_item(src: str, kind: str, name: str, within: str = None, nth: int = 0, m: str = None) -> Item:
    """Locate an item.

    kind: fn | struct | enum | const | type | trait | impl | static | union
    within: regex for the header of the enclosing impl/mod/trait block
            (whitespace-normalised, e.g. r"impl<.*> LimitReader<.*>" ), or None
            for "directly at file/module top level or anywhere if unique".
    nth: which match (in textual order) if several.
    """
    m = m if m is not None else mask(src)
    spans = [(0, 0, len(src))]
    base_depth = 0
    if within:
        spans = find_blocks(src, m, within)
        if not spans:
            raise AnchorError(f"enclosing block /{within}/ not found")
        base_depth = 1
    cands = []
    for (hs, ob, end) in spans:
        lo = ob if within else 0
        if kind == "impl":
            pat = r'\bimpl\b[^{};]*\{'
        else:
            pat = r'\b%s\s+%s\b' % (kind, re.escape(name))
        for mm in re.finditer(pat, m[lo:end]):
            pos = lo + mm.start()
            if kind == "impl":
                hdr = " ".join(src[pos:lo + mm.end() - 1].split())
                if not re.search("^" + name + "$", hdr):
                    continue
            if within and _depth_at(m, ob, pos) != 1:
                continue
            if not within and kind != "impl":
                # accept depth 0, or depth 1 inside a non-test `mod`; reject nested fns inside fns/impls
                pass
            cands.append(pos)
    if not within and kind not in ("impl",) and len(cands) > 1:
        # prefer depth-0 candidates
        d0 = [p for p in cands if _depth_at(m, 0, p) == 0]
        if d0:
            cands = d0
    if len(cands) <= nth:
        raise AnchorError(f"{kind} {name} not found" + (f" within /{within}/" if within else ""))
    pos = cands[nth]
    start = _item_start(src, m, pos)
    sig_start_line = pos
    # sig_start: position of first qualifier
    p2 = pos
    while True:
        pre = m[:p2].rstrip()
        mm = re.search(r'(pub(\s*\([^)]*\))?|const|unsafe|async|default|extern(\s*"\s*[A-Za-z ]*")?)$', pre)
        if mm and (mm.start() == 0 or not (pre[mm.start() - 1].isalnum() or pre[mm.start() - 1] == "_")):
            p2 = mm.start()
        else:
            break
    sig_start = p2
    if kind in ("fn",):
        bo = _fn_body_open(m, pos)
        end = match_brace(m, bo) if bo is not None else m.index(";", pos) + 1
    elif kind in ("struct", "enum", "trait", "impl", "union", "mod"):
        # struct may be tuple/unit: ends with ';'
        k = pos
        d = 0
        bo = None
        while k < len(m):
            ch = m[k]
            if ch in "([":
                d += 1
            elif ch in ")]":
                d -= 1
            elif ch == "{" and d == 0:
                bo = k
                break
            elif ch == ";" and d == 0:
                break
            k += 1
        end = match_brace(m, bo) if bo is not None else k + 1
    else:  # const/type/static
        bo = None
        k = pos
        d = 0
        while k < len(m):
            ch = m[k]
            if ch in "([{":
                d += 1
            elif ch in ")]}":
                d -= 1
            elif ch == ";" and d == 0:
                break
            k += 1
        end = k + 1
    return Item(src, start, sig_start, bo, end, kind, name)


LOOP_RE = re.compile(r'\b(while|loop|for)\b')


def find_loops(m: str, body_open: int, body_end: int):
    """Return list of (kw_pos, open_brace) for loops inside a fn body, textual order.
    `for<'a>` HRTB and `impl X for Y` are excluded by requiring statement context."""
    res = []
    for mm in LOOP_RE.finditer(m, body_open, body_end):
        kw = mm.group(1)
        # exclude `for<` (HRTB) and labels are fine
        after = m[mm.end():mm.end() + 1]
        if kw == "for" and after == "<":
            continue
        ob = _fn_body_open(m, mm.end())
        if ob is None or ob >= body_end:
            continue
        res.append((mm.start(), ob))
    return res


CLOSURE_RE = re.compile(r'(?<=[(,=])\s*(move\s+)?\|([^|{}();]*)\|')


def find_closures(m: str, body_open: int, body_end: int):
    """Closures in argument/initialiser position inside a fn body, textual order.
    Returns (start_of_first_bar, end_after_second_bar, end_of_body_expression)."""
    res = []
    for mm in CLOSURE_RE.finditer(m, body_open, body_end):
        start = mm.start() + (len(mm.group(0)) - len(mm.group(0).lstrip()))
        bar_end = mm.end()
        # body: until ',' or ')' / ']' / '}' / ';' at relative depth 0; or a matched block
        k = bar_end
        while k < body_end and m[k] in " \n\t":
            k += 1
        if m[k] == "{":
            end = match_brace(m, k)
        else:
            d = 0
            while k < body_end:
                ch = m[k]
                if ch in "([{":
                    d += 1
                elif ch in ")]}":
                    if d == 0:
                        break
                    d -= 1
                elif ch in ",;" and d == 0:
                    break
                k += 1
            end = k
            while m[end - 1] in " \n\t":
                end -= 1
        res.append((start, bar_end, end))
    return res
