#!/usr/bin/env python3
"""Debug helper: vgen.py <template> <out.rs> [TOKEN=value ...] -- writes the generated Verus file (no canary)."""
import sys, os
sys.path.insert(0, os.path.dirname(os.path.abspath(__file__)))
import vextract
subst = dict(a.split("=", 1) for a in sys.argv[3:])
ex = vextract.build(sys.argv[1], os.environ.get("VERIF_REPO", "/repo"), subst=subst)
open(sys.argv[2], "w").write(ex.text)
