#!/usr/bin/env python3
"""Debug helper: vgen.py <template> <out.rs> -- writes the generated Verus file (no canary)."""
import sys, os
sys.path.insert(0, os.path.dirname(os.path.abspath(__file__)))
import vextract
ex = vextract.build(sys.argv[1], os.environ.get("VERIF_REPO", "/repo"))
open(sys.argv[2], "w").write(ex.text)
