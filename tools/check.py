#!/usr/bin/env python3
"""./check <property-id> [--tier quick|thorough]   |   ./check --replay <replay file>

Decides one property by discharging the contract obligations of the units it depends on,
against /repo's *current working tree* (extracted / copied afresh on every run).

exit 0: every obligation of the property discharged (known findings are printed, not failed)
exit 1: a line `VIOLATION property=<id> replay=<path>` was printed
exit 2: undecided (tool limit, lost anchor, vacuity/canary guard) -- reason on stderr
"""
import argparse
import concurrent.futures as cf
import hashlib
import json
import os
import re
import shutil
import subprocess
import sys
import tempfile
import time

HERE = os.path.dirname(os.path.abspath(__file__))
VERIF = os.path.dirname(HERE)
sys.path.insert(0, HERE)

import vrun  # noqa: E402
import kinject  # noqa: E402
import krun  # noqa: E402
from rsrc import AnchorError  # noqa: E402

REPO = os.environ.get("VERIF_REPO", "/repo")


def load_config():
    """Merge contracts/units.d/*.json: each fragment declares units and, per property, the units
    (and obligation filters) it contributes plus level/assumption text."""
    cfg = {"units": {}, "properties": {}}
    d = os.path.join(VERIF, "contracts", "units.d")
    for fn in sorted(os.listdir(d)):
        if not fn.endswith(".json"):
            continue
        frag = json.load(open(os.path.join(d, fn)))
        for k, v in frag.get("units", {}).items():
            cfg["units"][k] = v
        for pid, p in frag.get("properties", {}).items():
            cur = cfg["properties"].setdefault(pid, {"units": [], "assumptions": [], "not_decided": [],
                                                      "trusted_base": []})
            for key in ("units", "assumptions", "not_decided", "trusted_base"):
                for item in p.get(key, []):
                    if item not in cur[key]:
                        cur[key].append(item)
            for key in ("level", "explanation"):
                if key in p:
                    cur[key] = p[key]
    return cfg


CONFIG = load_config()


def log(*a):
    print(*a, file=sys.stderr, flush=True)


def scratch_root():
    base = os.environ.get("VERIF_SCRATCH", "/var/tmp")
    os.makedirs(base, exist_ok=True)
    return tempfile.mkdtemp(prefix="rten-verif.", dir=base)


def load_known():
    path = os.path.join(VERIF, "KNOWN_FINDINGS.txt")
    out = []
    if not os.path.exists(path):
        return out
    for line in open(path):
        line = line.strip()
        if not line.startswith("finding:"):
            continue
        rec = {"raw": line}
        for k in ("property", "obligation", "match"):
            mm = re.search(r"\b%s=(\S+)" % k, line)
            rec[k] = mm.group(1) if mm else None
        mm = re.search(r"\bwhat=(.*)$", line)
        rec["what"] = mm.group(1) if mm else ""
        out.append(rec)
    return out


# --------------------------------------------------------------------------- unit runners

def run_verus_unit(uname, ucfg, tier, scratch):
    unit = {"name": uname, "template": os.path.join(VERIF, ucfg["template"]), "timeout": ucfg.get("timeout", 600),
            "subst": ucfg.get("subst")}
    rlimit = ucfg.get("rlimit")
    if tier == "thorough":
        rlimit = (rlimit or 10) * 2
    t0 = time.time()
    vr = vrun.run_unit(unit, REPO, scratch, rlimit=rlimit)
    # A proof found under any SMT seed is a proof. If some obligation fails, retry with other
    # seeds (and a doubled resource limit) before reporting it: a flaky solver run must not
    # become an alarm. The thorough tier always runs all seeds and records instability.
    seeds_tried = [0]
    unstable = []
    extra_seeds = [11, 23] if (vr.status == "failed" or tier == "thorough") else []
    for sd in extra_seeds:
        vr2 = vrun.run_unit(unit, REPO, scratch, rlimit=(rlimit or 10) * 2,
                            extra_args=("--smt-option", f"smt.random_seed={sd}"))
        seeds_tried.append(sd)
        if vr2.status in ("ok", "failed") and vr.status in ("ok", "failed"):
            f1 = sorted(set(f["function"] or "" for f in vr.failures))
            f2 = sorted(set(f["function"] or "" for f in vr2.failures))
            if f1 != f2:
                unstable.append({"seed": sd, "failed_before": f1, "failed_now": f2})
            # keep the run with fewer failing functions
            if len(f2) < len(f1):
                vr = vr2
        if vr.status == "ok" and tier != "thorough":
            break
    obs = []
    out = {"unit": uname, "backend": "verus", "obligations": obs, "status": "ok", "reason": "",
           "functions": [], "assumption_scan": [], "wall_s": 0.0, "cmd": vr.cmd, "tool": "verus " + vr.version,
           "solver_s": vr.smt_ms / 1000.0, "canary_failed": vr.canary_failed, "dropped": []}
    if vr.extracted is not None:
        out["functions"] = [{k: f[k] for k in ("name", "file", "src_lines", "sha256", "edits")} for f in vr.extracted.functions] + \
                           [{k: f[k] for k in ("name", "file", "src_lines", "sha256", "edits")} for f in vr.extracted.types]
        out["assumption_scan"] = scan_assumptions(vr.extracted.text, uname)
    if vr.status == "undecided":
        out["status"] = "undecided"
        out["reason"] = vr.reason
        out["detail"] = "\n".join(e.get("rendered", "") for e in vr.fe_errors)[:4000]
        out["wall_s"] = time.time() - t0
        return out
    declared = ucfg["obligations"]   # verus fn suffix -> obligation name
    fnres = vr.functions
    crate = os.path.basename(vr.gen_path)[:-3]
    # thorough: repeat with different SMT seeds to detect unstable proofs (instability => undecided, never alarm)
    seeds_ok = True
    for suffix, oname in declared.items():
        key = None
        for k in fnres:
            if k == crate + "::" + suffix or k.endswith("::" + suffix):
                key = k
        fails = [f for f in vr.failures if f["fn"] and (suffix.split("::")[-1] == f["fn"]) and
                 (f["function"] is None or suffix.split("::")[-1] == f["function"].split("::")[-1])]
        # failures carry the extracted fn name; match on impl too when ambiguous
        fails = [f for f in vr.failures if f["function"] and _fn_matches(f["function"], suffix)]
        rec = {"name": f"{uname}:{oname}", "backend": "verus", "kind": "complete", "bound": None,
               "function": suffix, "time_s": 0.0, "status": "undecided", "reason": "", "detail": ""}
        if key is None:
            rec["reason"] = f"function {suffix} produced no verification result (lost obligation)"
            out["status"] = "undecided" if out["status"] == "ok" else out["status"]
        else:
            rec["time_s"] = fnres[key]["time_us"] / 1e6
            rec["rlimit"] = fnres[key]["rlimit"]
            if fnres[key]["success"] and not fails:
                rec["status"] = "discharged"
            else:
                rec["status"] = "failed"
                tags = sorted(set(f["tag"] for f in fails if f["tag"]))
                rec["reason"] = "; ".join(sorted(set((f["message"] + (" [" + f["tag"] + "]" if f["tag"] else "") +
                                                      (" at " + f["src"] if f["src"] else "")) for f in fails)))[:800] \
                    or "verus reports function not verified"
                rec["tags"] = tags
                rec["detail"] = "\n".join(f["rendered"] for f in fails)[:6000]
                # Termination is not part of any listed property: if the only thing Verus cannot
                # show is a decreases obligation (e.g. after a refactor that recurses on a rebuilt
                # term), the function is undecided, not in violation.
                # The same holds for a requires clause tagged `@ob:premise.*` in the template: it
                # restates the property's premise for recursive calls, it is not a requirement of
                # the code.
                if fails and all("termination" in f["message"] or (f["tag"] or "").startswith("premise.") for f in fails):
                    rec["status"] = "undecided"
                    out["status"] = "undecided" if out["status"] == "ok" else out["status"]
                    out["reason"] = out["reason"] or f"only termination (decreases) / property-premise obligations of {suffix} fail: proof obligation of the machinery, not a property violation"
        obs.append(rec)
    # supporting lemmas/spec fns (owned by /verif) must verify; otherwise undecided
    support_failed = [k for k, v in fnres.items() if not v["success"] and not k.endswith("verif_canary")
                      and not any(k.endswith("::" + s) for s in declared)]
    unowned = [f for f in vr.failures if not f["function"]]
    if support_failed or unowned:
        out["status"] = "undecided"
        out["reason"] = "supporting lemma/spec failed (machinery, not code): " + ", ".join(support_failed) + \
                        " " + "; ".join(f["message"] for f in unowned)[:300]
        out["detail"] = "\n".join(f["rendered"] for f in unowned)[:4000]
    out["smt_seeds_tried"] = seeds_tried
    out["unstable"] = unstable
    out["n_support"] = len([k for k in fnres if not any(k.endswith("::" + s) for s in declared) and not k.endswith("verif_canary")])
    out["verus_verified"] = vr.verified
    out["verus_errors"] = vr.errors
    out["wall_s"] = time.time() - t0
    return out


def _fn_matches(extracted_name, suffix):
    # extracted_name like "impl SymExpr::range" or "::div_ceil"; suffix like "SymExpr::range" or "div_ceil"
    fn = suffix.split("::")[-1]
    if extracted_name.split("::")[-1] != fn:
        return False
    if "::" in suffix:
        ty = suffix.split("::")[-2]
        return ty in extracted_name
    return True


ASSUME_PATTERNS = [r"\bassume\s*\(", r"\badmit\s*\(", r"external_body", r"assume_specification",
                   r"kani::stub\b", r"kani::assume\s*\(", r"\bexternal\b\]", r"kani::stub_verified"]


def scan_assumptions(text, where):
    found = []
    for n, line in enumerate(text.splitlines(), 1):
        s = line.strip()
        if s.startswith("//"):
            continue
        for p in ASSUME_PATTERNS:
            if re.search(p, line):
                found.append(f"{where}:{n}: {s[:160]}")
                break
    return found


def run_kani_unit(uname, ucfg, tier, scratch, only=None):
    t0 = time.time()
    udir = os.path.join(VERIF, ucfg["dir"])
    ws = os.path.join(scratch, "ws-" + uname)
    out = {"unit": uname, "backend": "kani", "obligations": [], "status": "ok", "reason": "", "functions": [],
           "assumption_scan": [], "wall_s": 0.0, "cmd": "", "tool": "kani 0.68.0 / cbmc 6.11", "solver_s": 0.0,
           "canary_failed": None}
    try:
        kinject.copy_workspace(REPO, ws)
        unit, meta = kinject.inject(udir, ws)
    except AnchorError as e:
        out["status"] = "undecided"
        out["reason"] = f"lost anchor: {e}"
        return out
    out["functions"] = [{"name": m["fn"], "file": m["file"], "src_lines": m["src_lines"], "sha256": m["sha256"],
                         "edits": ["contract-attrs-inserted:%d" % len(m["attrs"])]} for m in meta]
    for fe in unit["files"]:
        for k in ("append", "prepend"):
            if fe.get(k):
                out["assumption_scan"] += scan_assumptions(open(os.path.join(udir, fe[k])).read(), f"{uname}/{fe[k]}")
    hs = [h for h in unit["harnesses"] if tier == "thorough" or h.get("tier", "quick") == "quick"]
    if only:
        hs = [h for h in hs if h["kind"] == "canary" or any(h["obligation"].startswith(p) for p in only)]
    logf = os.path.join(scratch, f"kani-{uname}.log")
    recs, info = krun.run_harnesses(unit, ws, hs, jobs=int(os.environ.get("VERIF_JOBS", ucfg.get("jobs", 8))), log=logf)
    out["cmd"] = info["cmd"]
    out["ws"] = ws
    out["unit_json"] = unit
    for h in hs:
        r = recs[h["name"]]
        if h.get("kind") == "canary":
            out["canary_failed"] = (r["status"] == "failed")
            continue
        status = {"ok": "discharged", "failed": "failed", "undecided": "undecided"}[r["status"]]
        rec = {"name": f"{uname}:{h['obligation']}", "backend": "kani", "kind": h.get("kind", "complete"),
               "bound": h.get("bound"), "harness": h["name"], "function": h.get("function"),
               "time_s": r["time_s"], "solver_s": r["solver_s"], "status": status, "reason": r["reason"],
               "checks": r["checks_total"], "covers": [r["covers_satisfied"], r["covers_total"]],
               "detail": json.dumps(r["checks_failed"], indent=1) if r["checks_failed"] else "",
               "form": h.get("form", "contract-harness")}
        out["obligations"].append(rec)
        out["solver_s"] += r["solver_s"]
    if out["canary_failed"] is not True:
        out["status"] = "undecided"
        out["reason"] = "canary harness did not fail (pipeline broken?): " + info["output_tail"][-800:]
    # A BOUNDED harness that did not complete (timeout / memory cap / solver crash) explored nothing: it is
    # reported as `not_completed` (evidence + stderr) but is not fatal -- exit 0 means "held on
    # everything explored". Everything else that is undecided (lost obligation, vacuity guard,
    # unwinding bound too small, unsupported construct) means the machinery no longer fits the code.
    for o in out["obligations"]:
        if o["kind"] == "bounded" and o["status"] == "undecided" and \
                ("did not complete" in o["reason"] or "wall-clock timeout" in o["reason"]):
            o["status"] = "not_completed"
    und = [o for o in out["obligations"] if o["status"] == "undecided"]
    if und and out["status"] == "ok":
        out["status"] = "undecided"
        out["reason"] = "; ".join(f"{o['name']}: {o['reason']}" for o in und)[:1500]
    done = [o for o in out["obligations"] if o["status"] in ("discharged", "failed")]
    if out["status"] == "ok" and out["obligations"] and not done:
        out["status"] = "undecided"
        out["reason"] = "no harness of this unit completed (timeouts / memory cap)"
    out["wall_s"] = time.time() - t0
    return out


def run_native_unit(uname, ucfg, tier, scratch):
    """backend "native": an exhaustive enumeration over a STATED FINITE DOMAIN, written as an
    integration test against the real crate's public API and run natively (release build) in a
    scratch copy. It is the bounded stand-in for code that neither verifier reaches (labelled
    bounded, never counted as proved). The test prints `FOUND kind=<k> ...` per failing input and
    `searched <n> ...` lines; obligations map kinds to names."""
    t0 = time.time()
    ws = os.path.join(scratch, "ws-" + uname)
    test_src_path = os.path.join(VERIF, ucfg["test"])
    if ucfg.get("miri"):
        # the same kind of enumeration executed by Miri (nightly): every memory access and borrow
        # of the run is checked for undefined behaviour (out-of-bounds, aliasing &mut, uninit reads)
        cmd = ["cargo", "+nightly", "miri", "test", "--offline", "-p", ucfg["crate"], "--test",
               os.path.splitext(os.path.basename(ucfg["dest"]))[0], "--", "--nocapture"]
    elif ucfg.get("append_to"):
        # internal enumeration: the module is appended to an existing #[cfg(test)] file of the crate
        # (it needs crate-private builders) and selected by its name
        cmd = ["cargo", "test", "--release", "--offline", "-p", ucfg["crate"], "--lib",
               ucfg["test_filter"], "--", "--nocapture"]
    else:
        cmd = ["cargo", "test", "--release", "--offline", "-p", ucfg["crate"], "--test",
               os.path.splitext(os.path.basename(ucfg["dest"]))[0], "--", "--nocapture"]
    out = {"unit": uname, "backend": "native", "obligations": [], "status": "ok", "reason": "", "functions": [],
           "assumption_scan": [], "wall_s": 0.0, "cmd": " ".join(cmd), "tool": "cargo test --release (native enumeration)",
           "solver_s": 0.0, "canary_failed": True, "native_found": {}}
    try:
        kinject.copy_workspace(REPO, ws)
        if ucfg.get("append_to"):
            tgt = os.path.join(ws, ucfg["append_to"])
            if not os.path.exists(tgt):
                raise AnchorError(f"anchored file {ucfg['append_to']} missing")
            with open(tgt, "a") as f:
                f.write("\n" + open(test_src_path).read())
        else:
            dest = os.path.join(ws, ucfg["dest"])
            os.makedirs(os.path.dirname(dest), exist_ok=True)
            shutil.copy(test_src_path, dest)
        env = dict(os.environ, CARGO_NET_OFFLINE="true")
        pr = subprocess.run(cmd, cwd=ws, capture_output=True, text=True, timeout=ucfg.get("timeout", 900), env=env)
        text = pr.stdout + pr.stderr
    except Exception as e:
        out["status"] = "undecided"
        out["reason"] = f"native enumeration could not run: {e}"
        out["wall_s"] = time.time() - t0
        return out
    ub = [l.strip() for l in text.splitlines() if "Undefined Behavior" in l]
    if ub:
        # Miri stops at the first undefined behaviour: report it with its diagnostic
        k0, o0 = list(ucfg["obligations"].items())[0]
        rec = {"name": f"{uname}:{o0}", "backend": "native", "kind": "bounded", "bound": ucfg.get("bound"),
               "harness": ucfg["test"], "function": None, "time_s": time.time() - t0, "solver_s": 0.0,
               "status": "failed", "reason": ub[0][:600], "checks": 0, "covers": [1, 1],
               "detail": text[text.find("Undefined Behavior") - 200:][:4000], "form": "miri-enumeration"}
        out["obligations"].append(rec)
        out["native_found"][rec["name"]] = ["FOUND kind=" + k0 + " " + ub[0]] + text[text.find("Undefined Behavior"):].splitlines()[1:14]
        out["wall_s"] = time.time() - t0
        return out
    aborted = "memory allocation of" in text or "signal: 6" in text or "SIGABRT" in text or "SIGSEGV" in text
    if aborted:
        # the process died (allocation failure / abort cannot be caught inside the test): run it
        # again with tracing so that the last TRY line names the input, and report that input
        try:
            pr2 = subprocess.run(cmd, cwd=ws, capture_output=True, text=True, timeout=ucfg.get("timeout", 900),
                                 env=dict(env, VERIF_TRACE="1"))
            tries = [l for l in (pr2.stdout + pr2.stderr).splitlines() if l.startswith("TRY ")]
        except Exception:
            tries = []
        why = next((l.strip() for l in text.splitlines() if "memory allocation of" in l or "signal:" in l), "process aborted")
        last = tries[-1][4:] if tries else "kind=" + list(ucfg["obligations"])[0] + " (input unknown)"
        for kind, oname in ucfg["obligations"].items():
            hit = f"kind={kind} " in last + " "
            rec = {"name": f"{uname}:{oname}", "backend": "native", "kind": "bounded", "bound": ucfg.get("bound"),
                   "harness": ucfg["test"], "function": None, "time_s": time.time() - t0, "solver_s": 0.0,
                   "status": "failed" if hit else "undecided",
                   "reason": f"process aborted ({why}) on input {last}"[:600] if hit else "enumeration aborted before completing",
                   "checks": len(tries), "covers": [1, 1], "detail": last, "form": "native-exhaustive-enumeration"}
            out["obligations"].append(rec)
            if hit:
                out["native_found"][rec["name"]] = ["FOUND " + last + " (process aborted: " + why + ")"]
        if not any(o["status"] == "failed" for o in out["obligations"]):
            out["status"] = "undecided"
            out["reason"] = "native enumeration aborted: " + why
        out["wall_s"] = time.time() - t0
        return out
    # (libtest prints `test <name> ... ` in front of the first output line when it runs tests on one
    # thread, as under Miri: look for the markers anywhere in a line)
    found = [l[l.index("FOUND kind="):] for l in text.splitlines() if "FOUND kind=" in l]
    searched = [l[l.index("searched "):] for l in text.splitlines() if re.search(r"(^|\.\.\. )searched \d", l)]
    ran = re.search(r"test result: (ok|FAILED)\. (\d+) passed; (\d+) failed", text)
    n_cases = sum(int(x) for l in searched for x in re.findall(r"\b(\d+)\b", l)[:1])
    if (not ran or not searched or n_cases == 0) and not found:
        # compile error (API changed) or the enumeration did not report its size: vacuity guard
        out["status"] = "undecided"
        out["reason"] = f"native enumeration did not run to completion (exit status {pr.returncode}): " + text[-600:]
        out["wall_s"] = time.time() - t0
        return out
    for kind, oname in ucfg["obligations"].items():
        hits = [l for l in found if f"kind={kind} " in l]
        rec = {"name": f"{uname}:{oname}", "backend": "native", "kind": "bounded", "bound": ucfg.get("bound"),
               "harness": ucfg["test"], "function": None, "time_s": time.time() - t0, "solver_s": 0.0,
               "status": "failed" if hits else "discharged",
               "reason": (hits[0][:600] if hits else ""), "checks": n_cases, "covers": [1, 1],
               "detail": "\n".join(hits[:15]), "form": "miri-enumeration" if ucfg.get("miri") else "native-exhaustive-enumeration"}
        out["obligations"].append(rec)
        if hits:
            out["native_found"][rec["name"]] = hits[:15]
    unknown = [l for l in found if not any(f"kind={k} " in l for k in ucfg["obligations"])]
    if unknown:
        out["status"] = "undecided"
        out["reason"] = "enumeration reported a kind no obligation names: " + unknown[0][:200]
    out["searched"] = searched
    out["wall_s"] = time.time() - t0
    return out


def kani_playback(unit_out, ob):
    unit = unit_out["unit_json"]
    h = [x for x in unit["harnesses"] if x["name"] == ob["harness"]][0]
    return krun.playback(unit, unit_out["ws"], h)


_NATIVE_SEARCH_CACHE = {}


def native_search(uname, ucfg, scratch):
    """Optional per-unit `native_search` (Verus units give no counterexample): after an obligation
    of the unit has failed, run a small enumerative search against the REAL crate in a scratch
    copy and return its FOUND lines as the failing input. It decides nothing by itself."""
    ns = ucfg.get("native_search")
    if not ns:
        return None
    key = ns["test"]
    if key in _NATIVE_SEARCH_CACHE:
        return _NATIVE_SEARCH_CACHE[key]
    ws = os.path.join(scratch, "ws-native-" + re.sub(r"\W+", "_", uname))
    res = {"test_src": None, "native_output": None, "reproduced": False}
    try:
        if not os.path.exists(ws):
            kinject.copy_workspace(REPO, ws)
        dest = os.path.join(ws, ns["dest"])
        os.makedirs(os.path.dirname(dest), exist_ok=True)
        shutil.copy(os.path.join(VERIF, ns["test"]), dest)
        cmd = ["cargo", "test", "--release", "--offline", "-p", ns["crate"], "--test",
               os.path.splitext(os.path.basename(dest))[0], "--", "--nocapture"]
        env = dict(os.environ, CARGO_NET_OFFLINE="true")
        pr = subprocess.run(cmd, cwd=ws, capture_output=True, text=True, timeout=ns.get("timeout", 900), env=env)
        out = pr.stdout + pr.stderr
        found = [l for l in out.splitlines() if l.startswith("FOUND ")]
        res["native_output"] = "$ " + " ".join(cmd) + "\n" + "\n".join(found[:15] + [l for l in out.splitlines() if l.startswith(("searched", "test result"))])
        if found:
            res["test_src"] = f"// failing inputs found by {ns['test']} (placed at {ns['dest']}) on the real crate:\n" + \
                              "\n".join("// " + l for l in found[:15])
            res["reproduced"] = True
    except Exception as e:   # best effort
        res["native_output"] = f"native search failed: {e}"
    _NATIVE_SEARCH_CACHE[key] = res
    return res


# --------------------------------------------------------------------------- property driver

def write_replay(pid, ob, unit_out, pb=None):
    d = os.path.join(VERIF, "replays", pid)
    os.makedirs(d, exist_ok=True)
    fn = re.sub(r"[^A-Za-z0-9_.-]+", "_", ob["name"]) + ".json"
    path = os.path.join(d, fn)
    rec = {"property": pid, "obligation": ob["name"], "backend": ob["backend"], "unit": unit_out["unit"],
           "harness": ob.get("harness"), "function": ob.get("function"),
           "verifier_reason": ob["reason"], "verifier_output": ob.get("detail", ""),
           "checker_cmd": unit_out["cmd"],
           "failing_input_found": bool(pb and pb.get("test_src")),
           "concrete_playback_test": pb.get("test_src") if pb else None,
           "native_replay_output": pb.get("native_output") if pb else None,
           "native_replay_reproduced": pb.get("reproduced") if pb else None,
           "how_to_replay": f"cd /verif && ./check --replay {path}"}
    with open(path, "w") as f:
        json.dump(rec, f, indent=1)
    return path


def decide(pid, tier, only_obligation=None):
    t0 = time.time()
    pcfg = CONFIG["properties"][pid]
    known = [k for k in load_known() if k["property"] == pid]
    scratch = scratch_root()
    unit_outs = []
    try:
        jobs = []
        with cf.ThreadPoolExecutor(max_workers=4) as ex:
            for uref in pcfg["units"]:
                uname = uref["unit"]
                if uref.get("tier", "quick") == "thorough" and tier != "thorough":
                    continue
                ucfg = CONFIG["units"][uname]
                if ucfg["backend"] == "verus":
                    jobs.append(ex.submit(run_verus_unit, uname, ucfg, tier, scratch))
                elif ucfg["backend"] == "native":
                    jobs.append(ex.submit(run_native_unit, uname, ucfg, tier, scratch))
                else:
                    jobs.append(ex.submit(run_kani_unit, uname, ucfg, tier, scratch, uref.get("only")))
            for j in jobs:
                unit_outs.append(j.result())
        # select obligations
        obligations = []
        for uo, uref in zip(unit_outs, [u for u in pcfg["units"] if not (u.get("tier", "quick") == "thorough" and tier != "thorough")]):
            for ob in uo["obligations"]:
                if uref.get("only") and not any(ob["name"].split(":", 1)[1].startswith(p) for p in uref["only"]):
                    continue
                if only_obligation and ob["name"] != only_obligation:
                    continue
                ob["_unit"] = uo
                obligations.append(ob)
        violations = []
        known_hits = []
        undecided = [uo for uo in unit_outs if uo["status"] == "undecided"]
        for ob in obligations:
            if ob["status"] != "failed":
                continue
            kf = None
            for k in known:
                if k["obligation"] == ob["name"] and (not k["match"] or re.search(k["match"], ob["reason"] + ob.get("detail", ""))):
                    kf = k
            if kf:
                known_hits.append((ob, kf))
                continue
            pb = None
            n_pb = len([v for v in violations if v[2] and v[2].get("test_src")])
            if ob["backend"] == "kani" and n_pb < int(os.environ.get("VERIF_MAX_PLAYBACK", "2")):
                try:
                    pb = kani_playback(ob["_unit"], ob)
                except Exception as e:  # playback is best-effort
                    pb = {"test_src": None, "native_output": f"playback failed: {e}", "reproduced": False}
            elif ob["backend"] == "verus":
                pb = native_search(ob["_unit"]["unit"], CONFIG["units"][ob["_unit"]["unit"]], scratch)
            elif ob["backend"] == "native":
                hits = ob["_unit"].get("native_found", {}).get(ob["name"], [])
                pb = {"test_src": f"// failing inputs found by {ob['harness']} on the real crate:\n" + "\n".join("// " + l for l in hits),
                      "native_output": "\n".join(hits), "reproduced": True}
            path = write_replay(pid, ob, ob["_unit"], pb)
            violations.append((ob, path, pb))
        ev = build_evidence(pid, pcfg, tier, unit_outs, obligations, violations, known_hits, time.time() - t0)
        if not only_obligation:      # a replay re-verifies one obligation; it must not overwrite the evidence
            write_evidence(pid, ev)
        for ob, kf in known_hits:
            print(f"KNOWN-FINDING: property={pid} {ob['name']} {kf['what']}")
        for ob, path, pb in violations:
            log(f"[{pid}] obligation FAILED: {ob['name']}: {ob['reason']}")
            suffix = "" if (pb and pb.get("test_src")) else " no-failing-input-found"
            print(f"VIOLATION property={pid} replay={path}{suffix}")
        if violations:
            return 1
        if undecided:
            for uo in undecided:
                log(f"[{pid}] UNDECIDED unit {uo['unit']}: {uo['reason']}")
                if uo.get("detail"):
                    log(uo["detail"])
            return 2
        for o in obligations:
            if o["status"] == "not_completed":
                log(f"[{pid}] NOT-COMPLETED (unexplored, not counted): {o['name']}: {o['reason']}")
        n_dis = len([o for o in obligations if o["status"] == "discharged"])
        print(f"OK property={pid} tier={tier} obligations={len(obligations)} discharged={n_dis} "
              f"known_findings={len(known_hits)} wall={time.time()-t0:.1f}s")
        return 0
    finally:
        if not os.environ.get("VERIF_KEEP_SCRATCH"):
            shutil.rmtree(scratch, ignore_errors=True)
        else:
            log("scratch kept at", scratch)


def build_evidence(pid, pcfg, tier, unit_outs, obligations, violations, known_hits, wall):
    # Obligations that fail as recorded in KNOWN_FINDINGS.txt are *finding monitors*: they restate a
    # clause the real code is known to violate. They are reported under known_findings_hit (and in
    # obligation_list with their failed status) and are not part of the obligations/discharged
    # counts, which describe what this run establishes.
    known_names = set(o["name"] for o, _ in known_hits)
    complete = [o for o in obligations if o["kind"] == "complete" and o["name"] not in known_names]
    bounded = [o for o in obligations if o["kind"] != "complete" and o["name"] not in known_names]
    dis_complete = [o for o in complete if o["status"] == "discharged"]
    dis_bounded = [o for o in bounded if o["status"] == "discharged"]
    level = pcfg["level"]
    functions = []
    assumptions = list(pcfg.get("assumptions", []))
    scan = []
    cmds = []
    for uo in unit_outs:
        functions += [dict(f, unit=uo["unit"], backend=uo["backend"]) for f in uo["functions"]]
        scan += uo["assumption_scan"]
        cmds.append(uo["cmd"])
    oblist = []
    for o in obligations:
        oblist.append({k: o.get(k) for k in ("name", "backend", "kind", "bound", "status", "time_s", "solver_s",
                                               "function", "harness", "checks", "covers", "form", "reason")})
    cov = {
        "functions_under_contract": functions,
        "obligation_list": oblist,
        "bounded_checks": len(bounded),
        "bounded_checks_passed": len(dis_bounded),
        "checker_cmd": " && ".join(c for c in cmds if c),
        "trusted_base": pcfg.get("trusted_base", []) + [
            "rustc front ends of the pinned Verus (1.98.1) and Kani toolchains",
            "Verus 0.2026.09.13 + Z3; Kani 0.68.0 + CBMC 6.11 + CaDiCaL",
            "tools/rsrc.py item location and tools/vextract.py splice (bodies hashed; a wrong span fails to compile => exit 2)",
            "64-bit target (usize = u64)"],
        "assumption_scan": scan,
        "not_decided": pcfg.get("not_decided", []),
        "canaries": {uo["unit"]: uo["canary_failed"] for uo in unit_outs},
        "smt_seeds_tried": {uo["unit"]: uo.get("smt_seeds_tried") for uo in unit_outs if uo["backend"] == "verus"},
        "unstable_proofs": {uo["unit"]: uo.get("unstable") for uo in unit_outs if uo.get("unstable")},
        "solver_time_s": round(sum(uo.get("solver_s", 0) for uo in unit_outs), 3),
        "unit_wall_s": {uo["unit"]: round(uo["wall_s"], 1) for uo in unit_outs},
        "known_findings_hit": [o["name"] for o, _ in known_hits],
        "not_completed": [o["name"] for o in obligations if o["status"] == "not_completed"],
        "samples": [{"obligation": o["name"], "status": o["status"], "kind": o["kind"], "bound": o.get("bound")}
                    for o in obligations[:6]],
    }
    if level == "proof":
        cov["obligations"] = len(complete)
        cov["discharged"] = len(dis_complete)
    else:
        cov["explanation"] = pcfg.get("explanation", "") + \
            f" This run: {len(complete)} complete obligations ({len(dis_complete)} discharged), " \
            f"{len(bounded)} bounded contract checks ({len(dis_bounded)} passed)."
        cov["obligations"] = len(complete) + len(bounded)
        cov["discharged"] = len(dis_complete) + len(dis_bounded)
        cov["evaluations"] = max(1, sum((o.get("checks") or 1) for o in obligations))
        cov["distinct_nontrivial"] = len([o for o in obligations if o["status"] == "discharged"])
        cov["rule"] = "evaluations = CBMC property checks + Verus functions decided; distinct_nontrivial = obligations discharged (each a different contract clause of a different function)"
    return {
        "property_id": pid, "tier": tier, "seed": int(os.environ.get("VERIF_SEED", "0") or 0),
        "level": level, "coverage": cov,
        "assumptions": assumptions + ["see coverage.assumption_scan for every assume/external_body/stub in the generated inputs"],
        "wall_s": round(wall, 2), "violations": len(violations),
    }


def write_evidence(pid, ev):
    # evidence/<id>.json describes runs against /repo itself; runs against another tree
    # (VERIF_REPO=..., used for seeded-change rehearsals) must not overwrite it
    d = os.path.join(VERIF, "evidence") if os.path.realpath(REPO) == "/repo" else \
        os.environ.get("VERIF_EVIDENCE_DIR", "/var/tmp/rten-verif-evidence-other-tree")
    os.makedirs(d, exist_ok=True)
    try:
        import jsonschema
        jsonschema.validate(ev, json.load(open("/root/.vp/EVIDENCE.schema.json")))
    except ImportError:
        pass
    except Exception as e:
        log("evidence does not validate:", str(e)[:500])
    with open(os.path.join(d, pid + ".json"), "w") as f:
        json.dump(ev, f, indent=1)


def replay(path):
    """Re-run a recorded violation against the CURRENT tree.
    Kani obligations with a recorded counterexample: the concrete playback test is spliced into the
    harness module of a fresh scratch copy and executed natively (`cargo kani playback`): exit 1 if it
    still fails (reproduced), 0 if it passes. Otherwise the obligation is re-verified."""
    rec = json.load(open(path))
    pid = rec["property"]
    log(f"replaying obligation {rec['obligation']} of {pid} on the current tree")
    test = rec.get("concrete_playback_test")
    if test and rec.get("backend") == "kani":
        log("recorded failing input (Kani concrete playback test):\n" + test)
        uname = rec["unit"]
        ucfg = CONFIG["units"][uname]
        udir = os.path.join(VERIF, ucfg["dir"])
        scratch = scratch_root()
        try:
            ws = os.path.join(scratch, "ws")
            kinject.copy_workspace(REPO, ws)
            unit, _ = kinject.inject(udir, ws)
            mm = re.search(r"fn (kani_concrete_playback_\w+)", test)
            tname = mm.group(1)
            hmod = rec["harness"].split("::")[0]
            placed = False
            for fe in unit["files"]:
                if not fe.get("append"):
                    continue
                fp = os.path.join(ws, fe["file"])
                src = open(fp).read()
                if ("mod " + hmod) in src:
                    k = src.rstrip().rfind("}")
                    src = src[:k] + "\n" + test + "\n}\n"
                    open(fp, "w").write(src)
                    placed = True
                    break
            if not placed:
                log("could not place the recorded test; falling back to re-verification")
            else:
                cmd = ["cargo", "kani", "playback", "-Z", "concrete-playback", "-p", unit["crate"]]
                if unit.get("features"):
                    cmd += ["--features", unit["features"]]
                cmd += ["--", tname]
                rc, out, to, dt = krun._run_group(cmd, ws, 900, env=krun.kani_env())
                verdict = krun.native_verdict(out, tname, to)
                mm2 = re.search(r"(running \d+ tests?.*?test result:[^\n]*)", out, re.S)
                print((mm2.group(1) if mm2 else out[-2000:])[-2500:])
                if verdict == "failed":
                    print(f"REPRODUCED property={pid} obligation={rec['obligation']} (native execution of the recorded input fails on the current tree)")
                    return 1
                if verdict == "passed":
                    print(f"NOT-REPRODUCED property={pid} obligation={rec['obligation']} (recorded input passes on the current tree)")
                    return 0
                log("native replay did not build; falling back to re-verification")
        finally:
            shutil.rmtree(scratch, ignore_errors=True)
    rc = decide(pid, "quick", only_obligation=rec["obligation"])
    return rc


def main():
    ap = argparse.ArgumentParser()
    ap.add_argument("property", nargs="?")
    ap.add_argument("--tier", default=os.environ.get("VERIF_TIER", "quick"))
    ap.add_argument("--replay")
    a = ap.parse_args()
    if a.replay:
        sys.exit(replay(a.replay))
    if a.property not in CONFIG["properties"]:
        log(f"unknown or unclaimed property {a.property}")
        sys.exit(2)
    sys.exit(decide(a.property, a.tier))


if __name__ == "__main__":
    try:
        main()
    except SystemExit:
        raise
    except BaseException as e:  # an internal error of the machinery is never a violation
        import traceback
        traceback.print_exc()
        log("internal error in the checker => undecided")
        sys.exit(2)
